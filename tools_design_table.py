#!/usr/bin/env python3
"""Rewrite the last column (quick: paths / wall) of the as-built table in DESIGN.md from evidence/<id>.json."""
import json, re, os
ROOT = os.path.dirname(os.path.abspath(__file__))
p = os.path.join(ROOT, 'DESIGN.md')
s = open(p).read()
out = []
for line in s.split('\n'):
    m = re.match(r'^\| (C\d\d) \|', line)
    if m and line.count('|') >= 7 and os.path.exists(os.path.join(ROOT, 'evidence', m.group(1) + '.json')) and '/ ' in line.rsplit('|', 2)[1]:
        ev = json.load(open(os.path.join(ROOT, 'evidence', m.group(1) + '.json')))
        if ev.get('tier') == 'quick':
            paths = ev['coverage']['states']
            wall = ev.get('duration_s') or ev.get('wall_s') or 0
            cells = line.rsplit('|', 2)
            cells[1] = ' %s / %d s ' % ('{:,}'.format(paths).replace(',', ' '), round(wall))
            line = '|'.join(cells)
    out.append(line)
open(p, 'w').write('\n'.join(out))
print('table refreshed')
