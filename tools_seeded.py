#!/usr/bin/env python3
"""Seeded-change bookkeeping.
  tools_seeded.py confirm <prop> <srcdir> <worktree>   verify patch/demo/baseline in a scratch worktree, copy into seeded/<prop>-<name>/
  tools_seeded.py run <seed-id|all> [--tier quick]      apply to /repo, run the property's check, undo; prints caught/missed
"""
import sys, os, json, subprocess, shutil, glob, time

ROOT = os.path.dirname(os.path.abspath(__file__))


def sh(cmd, **kw):
    return subprocess.run(cmd, shell=True, stdout=subprocess.PIPE, stderr=subprocess.STDOUT, text=True, **kw)


def confirm(prop, src, wt):
    name = os.path.basename(src.rstrip('/'))
    patch = os.path.join(src, 'patch.diff')
    demo = os.path.join(src, 'demo.py')
    assert sh('git -C %s status --porcelain' % wt).stdout.strip() == '', 'worktree not clean'
    r0 = sh('cd %s && PYTHONPATH=%s /venv/bin/python %s' % (wt, wt, demo))
    a = sh('git -C %s apply %s' % (wt, patch))
    assert a.returncode == 0, a.stdout
    r1 = sh('cd %s && PYTHONPATH=%s /venv/bin/python %s' % (wt, wt, demo))
    bl = sh('/tmp/run_baseline.sh %s' % wt)
    sh('git -C %s checkout -- .' % wt)
    ok = r0.returncode == 0 and r1.returncode != 0 and bl.returncode == 0
    print(prop, name, 'demo clean rc=%d patched rc=%d baseline rc=%d -> %s' % (r0.returncode, r1.returncode, bl.returncode, 'CONFIRMED' if ok else 'REJECTED'))
    if not ok:
        print(r0.stdout[-500:], r1.stdout[-500:], bl.stdout[-500:])
        return False
    dst = os.path.join(ROOT, 'seeded', '%s-%s' % (prop, name))
    os.makedirs(dst, exist_ok=True)
    shutil.copy(patch, dst)
    shutil.copy(demo, dst)
    note = open(os.path.join(src, 'note.md')).read() if os.path.exists(os.path.join(src, 'note.md')) else ''
    meta = {'property': prop, 'needs_to_manifest': note.strip(), 'confirmed': {
        'demo_on_clean_tree_rc': r0.returncode, 'demo_with_patch_rc': r1.returncode, 'baseline_suite_with_patch': bl.stdout.strip()[-200:],
        'how': 'scratch worktree %s: demo.py run before/after `git apply patch.diff`, /tmp/run_baseline.sh (repository suite vs BASELINE.json stable-pass set)' % wt},
        'origin': 'independent sub-agent given only the property text'}
    json.dump(meta, open(os.path.join(dst, 'meta.json'), 'w'), indent=1)
    return True


TREE = os.environ.get('SEED_TREE', '/repo')      # a scratch worktree may be used instead of /repo (PYTHONPATH puts it first)


def run(seed, tier, base=None):
    d = os.path.join(ROOT, 'seeded', seed) if base is None else os.path.join(base, seed)
    meta = json.load(open(os.path.join(d, 'meta.json'))) if os.path.exists(os.path.join(d, 'meta.json')) else {'property': seed.split('-')[0]}
    prop = meta['property']
    assert sh('git -C %s status --porcelain' % TREE).stdout.strip() == '', '%s not clean' % TREE
    a = sh('git -C %s apply %s' % (TREE, os.path.join(d, 'patch.diff')))
    if a.returncode:
        print(seed, 'PATCH DOES NOT APPLY', a.stdout[-300:])
        return None
    t0 = time.time()
    try:
        env = '' if TREE == '/repo' else 'PYTHONPATH=%s ' % TREE
        r = sh('cd %s && %s./check %s --tier %s --no-evidence' % (ROOT, env, prop, tier))
    finally:
        sh('git -C %s checkout -- .' % TREE)
    caught = r.returncode == 1 and 'VIOLATION property=%s' % prop in r.stdout
    lines = [l for l in r.stdout.splitlines() if l.startswith(('VIOLATION', '  what', 'INCONCLUSIVE'))][:4]
    print('%s: rc=%d %s (%.0fs) %s' % (seed, r.returncode, 'CAUGHT' if caught else 'MISSED', time.time() - t0, ' | '.join(lines)[:400]))
    meta.setdefault('check_results', {})[tier] = {'rc': r.returncode, 'caught': caught, 'first_lines': lines[:2], 'cmd': './check %s --tier %s' % (prop, tier)}
    if base is None:
        json.dump(meta, open(os.path.join(d, 'meta.json'), 'w'), indent=1)
    return caught


if __name__ == '__main__':
    if sys.argv[1] == 'confirm':
        sys.exit(0 if confirm(sys.argv[2], sys.argv[3], sys.argv[4]) else 1)
    if sys.argv[1] == 'run':
        tier = sys.argv[sys.argv.index('--tier') + 1] if '--tier' in sys.argv else 'quick'
        seeds = sorted(os.listdir(os.path.join(ROOT, 'seeded'))) if sys.argv[2] == 'all' else [s for s in sorted(os.listdir(os.path.join(ROOT, 'seeded'))) if s.startswith(sys.argv[2])]
        res = {s: run(s, tier) for s in seeds}
        print('caught %d / %d' % (sum(1 for v in res.values() if v), len(res)))
