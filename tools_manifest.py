#!/usr/bin/env python3
"""Regenerates MANIFEST.json from the table below (so the manifest stays valid and consistent)."""
import json, os, sys

ROOT = os.path.dirname(os.path.abspath(__file__))
TECH = 'symbolic execution of the real functions (AST-instrumented from /repo source), z3 decides each branch and proves the oracle equality per path; counterexamples replayed concretely on the uninstrumented code'

CLAIMED = {
    'C01': dict(level='model_checking',
                text='Bounded exhaustive: every input string up to the stated length (arbitrary code points, partitioned by z3 into lexical classes) under the default, '
                     '@-letter and verbatim tables and every table one (thorough: two) \\catcode assignment away produces exactly the reference lexer\'s token stream, '
                     'never raises and terminates; lexer-state prefixes extend the claim to every (state x next characters) transition.',
                note='Trusted: z3, the AST rewrite (validated by running the repository suite under it), the SymTok model of Token dunder methods (validated each run), '
                     'the reference lexer with the conventions of DESIGN.md section 3, the read(1)/readline stub standing in for StringIO. Inputs longer than the bound are outside the claim.',
                ref='DESIGN.md section 5 C01'),
    'C02': dict(level='model_checking',
                text='Bounded exhaustive over generated macro programs rendered as source text: \\def with 9 parameter patterns x 5 bodies x 4 argument shapes x 4 placements '
                     '(top level, in a group, call inside another body, call inside an argument), \\newcommand with 1-3 arguments and the optional argument present/absent/empty, '
                     'nested definitions with ##, \\let before redefinition (chains, groups, with arguments), \\csname-built names, \\expandafter, \\gdef vs \\def in nested groups, '
                     '#{, 9 parameters, 3 levels of calls - with EVERY payload character a z3 variable, so the visible text must equal the reference expansion symbol for symbol.',
                note='Program shapes are finite choices; the solver tracks where each argument character lands. Normal form of DESIGN.md section 3 (no recursion, no delimiter hidden '
                     'in braces, no \\edef). The reference expander is an independent 150-line implementation of TeX\'s substitution rules.',
                ref='DESIGN.md section 5 C02'),
    'C03': dict(level='model_checking',
                text='Bounded exhaustive over generated conditional skeletons (source text through the real tokenizer, expansion loop, test primitives and '
                     'processIfContent): for every skeleton with <= 2 (thorough: 3, plus depth-4 chains) conditionals and for ALL operand values - count registers are '
                     'unbounded z3 integers (so every \\ifcase selector value is covered), dimens reals, \\newif switches booleans - the processed text and the '
                     'number of counter steps equal those of the branch TeX selects.',
                note='Trusted: z3, AST rewrite, the recursive reference evaluator, floats-as-reals for \\ifdim. Operands are registers (normal form: no literal termination issue). '
                     'Mode tests and \\ifcat/\\if/\\ifcsname are outside the generated heads.',
                ref='DESIGN.md section 5 C03'),
    'C04': dict(level='model_checking',
                text='Bounded exhaustive over scoping programs written as LaTeX source: outer x inner scope of every kind ({ }, \\begingroup, environment, $ $, macro argument, '
                     'tabular cell) with local/global definitions, \\let and catcode changes before/inside/after the inner scope (quick: a seed-rotated ninth of the 125 edit '
                     'triples per scope pair, thorough: all); an observer macro records at five points the stack depth, name membership, keys(), visible meanings and '
                     'whichCode(q) for an UNBOUNDED symbolic query character q - so \"for every character the table after the group equals the table before\" is proved by z3 per '
                     'path; environments closed over 1-3 unclosed groups; one (thorough: two) direct Context API operations from stacks of 0-3 frames vs a frame model.',
                note='Trusted: z3, AST rewrite, the frame model (innermost live definition wins, \\gdef writes the global frame, copy-on-write catcodes). '
                     'Unbalanced input other than unclosed groups inside an environment is outside the claim.',
                ref='DESIGN.md section 5 C04'),
    'C05': dict(level='model_checking',
                text='Bounded exhaustive over literal and invocation skeletons written as source characters: integer literals (sign runs, decimal/octal/hex/character code, '
                     'digit characters drawn from the digit range plus its neighbours so early termination is a feasible branch, count registers with unbounded values), '
                     'dimension literals (5-6 decimal forms, two symbolic unit letters in either case covering all 11 units, true, register multiples), glue with plus/minus and '
                     'the three fil orders, and generated signatures (star, [], (), <>, mandatory; untyped/str/int/dimen/list/dict) with symbolic content characters that may be '
                     'the delimiters themselves: value = TeX\'s value, every declared name bound as written, exactly the literal/invocation consumed, parameter-enable level restored.',
                note='Trusted: z3, AST rewrite, the reference number grammar and reference binder; dimensions compared with the exact rational within (1+unit/pt) sp, floats as reals. '
                     'Signatures beyond 3 arguments, mu units, url/label/ref/cs types are outside the claim.',
                ref='DESIGN.md section 5 C05'),
    'C06': dict(level='model_checking',
                text='Bounded exhaustive: from each of 6 pre-state trees one operation (quick) / all histories of 2 and selected histories of 3 operations (thorough) over the '
                     '10 documented editing operations, every target element, every argument kind (detached element, text node, fragment) and every index in [-(n+2), n+2] '
                     '(z3 integers), text contents symbolic: after every step the parent/owner links, child order, sibling navigation, first/last child, textContent, '
                     'getElementsByTagName, allChildNodes, document position and deep clone agree with a list-of-lists model; normalize keeps the text and is idempotent.',
                note='The heap is pointer-rich, so operation/target/argument are finite choices enumerated exhaustively; the solver decides index arithmetic and text equality '
                     '(stated in the evidence). Arguments are detached nodes (property scope); failed edits end the history. Attribute-held fragments are outside the claim.',
                ref='DESIGN.md section 5 C06'),
    'C07': dict(level='model_checking',
                text='(i) digestion protocol: streams of 2-4 (thorough 6) sectioning nodes whose level is a z3 integer in [-2, 6] through the real TeX.parse/SectionUtils.digest/'
                     'paragraphs - every node once, in order, nesting by level entailed on every path; (ii) 9 document skeletons (article/book sectioning incl. starred, paragraphs, '
                     'nested lists, description, center/quote/flushleft, font commands and declarations incl. a bare declaration running up to a heading, footnote, boxes, tabular, '
                     'math, verbatim, \\verb), each leaf in turn made of 2 (3) symbolic characters over {letter, \', `, -, \", non-ASCII}: the arguments-before-children walk yields '
                     'every leaf once in source order, quotes/dashes substituted in text and titles and never in verbatim/math, parent links name the containers, sections contain '
                     'only paragraphs and strictly deeper units, no paragraph directly in a paragraph.',
                note='Partial: documents outside the skeleton grammar and longer leaves are outside the claim; the substitution oracle is the ordered replacement table applied per text run. '
                     'Text is compared with blanks removed.',
                ref='DESIGN.md section 5 C07'),
    'C08': dict(level='model_checking',
                text='Bounded exhaustive: roman/Roman numerals for every value in the stated range (one path per numeral, decoded by an independent reader), Alph/alph 1..26, '
                     'arabic for a symbolic range; every acyclic reset graph over <= 3 (thorough 4) counters declared with \\newcounter{x}[y] x all histories of 3 (4) '
                     'step/set/add/refstep operations written as LaTeX source with symbolic operands vs a transitive-reset model; nested \\the formats with Roman/alph parts and '
                     'trimLeft; article/book skeletons (sections with a symbolic star character, equations, captions, nested enumerate, \\setcounter with a symbolic value, '
                     '\\appendix) for every numbering depth: each numbered node carries exactly the number LaTeX\'s rules give.',
                note='Trusted: z3, AST rewrite, the numeral readers and the transitive-reset/numbering reference. Ownership of counters by package macros beyond the skeleton '
                     'constructs (amsthm, eqnarray rows, \\nonumber) is outside the claim; Alph of 0 is outside the claimed range.',
                ref='DESIGN.md section 5 C08'),
    'C09': dict(level='model_checking',
                text='Bounded exhaustive over histories of numbered objects, \\label, \\ref and \\pageref written as LaTeX source (all histories of length <= 3 plus a seed-rotated '
                     'eighth of length 4 in quick; all of length 4 and a twelfth of length 5 in thorough; 6 long histories with several pending references) with label texts of '
                     'symbolic characters over {blank, a, b}: every reference whose stripped text equals a defined label is the labelled object itself (identity), whether '
                     'the label comes before or after; every other reference resolves to no document node; labelled objects carry their label as id; no pending entry remains for a defined label.',
                note='Each label is defined at most once (DESIGN.md section 3); references may coincide with any label or none - decided by z3. Only sections and equations carry '
                     'labels in the skeletons; bibliography keys are outside the claim.',
                ref='DESIGN.md section 5 C09'),
    'C10': dict(level='model_checking',
                text='Tables of 3 rows x 4 declared columns parsed from source: \\multicolumn at every (row, position) with a SYMBOLIC span; {none, \\hline, \\cline{a-b}} in the '
                     'four rule slots (quick: <= 2 rules, half of the placements; thorough: all 80) with a, b symbolic, with and without a spanning cell and an empty first cell; '
                     '4 column specifications with bars plus *{n}{..} with symbolic n and bars inside/outside the group; every cell character symbolic: rows/cells/texts as written, '
                     'spans as given with row sums = declared columns, alignment and vertical bars per column, a rule marks exactly the cells whose column interval meets its range '
                     '(interval arithmetic proved by z3). 12 list skeletons (nesting to depth 3, multi-paragraph items, environments in items, description terms incl. brackets): '
                     'one item per \\item holding the text up to the next \\item, nested lists inside their item, terms attached.',
                note='A rule between two rows may be recorded on either adjacent border. longtable/tabularx/booktabs, nested tabulars and wider tables are outside the claim.',
                ref='DESIGN.md section 5 C10'),
    'C11': dict(level='model_checking',
                text='Verbatim: bodies of <= 3 (thorough 4) ARBITRARY symbolic characters, and one symbolic character before/after every proper prefix of \\end{verbatim} (partial end '
                     'markers are feasible branches by construction), starred form, comment/ligature-like body: the content equals the characters between the delimiters, text after '
                     'it is processed normally, the context stack is restored; \\verb with a symbolic delimiter (any printable non-letter) and symbolic body, starred and not; math: '
                     '38 formula skeletons (scripts, nested fractions, roots, control words before letters, user macros as unbraced arguments, boxes, relations) with symbolic letters '
                     'in $ $, \\( \\), \\[ \\], equation: node.source re-lexed by the real tokenizer equals token for token, blanks aside, what was written with user macros expanded.',
                note='Two symbolic kernels are chained (source reconstruction, then the lexer of C01). Arrays inside formulas and image rendering are outside the claim; bodies containing '
                     'the complete end delimiter are excluded as the property says.',
                ref='DESIGN.md section 5 C11'),
    'C12': dict(level='model_checking',
                text='The real PageTemplate renderer object, with no templates loaded, renders parsed skeletons with one text leaf in each of 8 positions (paragraph, footnote, list item, '
                     'table cell, nested emphasis, verbatim, \\verb, caption) made of 2 (thorough 3) symbolic characters over {<, >, ;, #, letter, & in verbatim} and EVERY code point '
                     '128..0x10FFFF, plus 8 concrete tag-/entity-like strings, escape-high-chars on and off: decoding the output as HTML gives back exactly the source characters, the '
                     'output contains no raw < or >, and with escaping on it is pure ASCII (numeric references decode to the code point - proved by z3 on symbolic digits).',
                note='PARTIAL: covers the text hook (textDefault), the render recursion that routes text and .str shortcuts through it, and processFileContent. What each Jinja2/ZPT '
                     'template does with a node string - the part the property worries about most - is outside the claim (compiled template code and markupsafe are beyond the engine).',
                ref='DESIGN.md section 5 C12'),
    'C13': dict(level='model_checking',
                text='The real base Renderer runs end to end (render: split-level/template interpretation, cacheFilenames, Renderable.filename, __str__ file routing, Filenames, '
                     'cleanup, unmix) on 4 document skeletons x 6 filename templates with the split level a z3 integer in [-10, 6] and the first title symbolic (for $title '
                     'templates): a unit gets its own file iff its level <= split level (never for a single-file template), every marker word appears exactly once, in the file of '
                     'its nearest file-producing ancestor and in document order, file names are pairwise distinct, free of forbidden characters and identical on a second run.',
                note='Partial: the renderer is template-less (elements fall back to the default hook), so the Python-level routing is covered, not theme layouts or footnote gathering '
                     'by Jinja2/ZPT templates (compiled template code is beyond the engine). open() is captured in memory.',
                ref='DESIGN.md section 5 C13'),
    'C14': dict(level='model_checking',
                text='The real base Renderer renders 4 skeletons (citations with a bibliography and index entries with \\printindex; labels on sections, subsections, an equation; references from other units; footnotes at three depths; article, book, '
                     'deep nesting) x base-url empty/set with the split level, toc-depth and toc-non-files symbolic (z3): while the renderable mixin is active every node URL is its own '
                     'file or nearest file-producing ancestor file + #id, that file is produced, every reference link names the file its target is rendered into with the target id as '
                     'fragment, identifiers are unique per file, every footnote is gathered by the unit producing its file and its mark links there, and with sufficient toc-depth every '
                     'file-producing unit is reachable through tableofcontents.',
                note='Partial: covers the Python-level URL / identifier / table-of-contents / footnote computations the templates consume; the href and id attributes the Jinja2/ZPT '
                     'templates finally emit are outside the claim (compiled template code is beyond the engine). Index and citation links are not covered.',
                ref='DESIGN.md section 5 C14'),
    'C15': dict(level='model_checking',
                text='Bounded exhaustive over request histories of the real generator through its call interface: 7 templates of the documented grammar x histories of 2-4 '
                     '(thorough 4-6) requests x every presence pattern of the bindings (symbolic booleans) x ALL binding values of bounded length over {a,b,blank,/} (symbolic: '
                     'collisions, blanks, forbidden characters decided by z3): each returned name equals the reference generator\'s, is fresh, not reserved, free of forbidden '
                     'characters, and exhaustion is reported by ValueError on that and every later request.',
                note='Template shape, history length and value lengths are finite choices; the SMT content is value collisions, word splitting, character substitution. '
                     'string.Template.substitute and os.path.splitext are modelled by their documented rules and validated against the real functions at start-up.',
                ref='DESIGN.md section 5 C15'),
    'C16': dict(level='model_checking',
                text='Bounded exhaustive over layerings: for one representative option per type and section (all 16 boolean options) every combination of {file 1, file 2, '
                     'command line} present/absent (z3 booleans) with the written values symbolic (digits of integers and floats, letters of strings and list entries; 12 boolean '
                     'spellings and paired --x/--no-x flags as finite choices): the value read back is the one from the highest layer present (lists extend, dictionaries merge '
                     'per key), of the declared type; %(name)s refers to the current value of the named option and %% is a literal percent sign in strings and list entries.',
                note='configparser.ConfigParser is an environment stub in symbolic runs (same merge semantics; the real class on real files in every concrete replay and '
                     'cross-validation run); argparse runs for real on concrete argument vectors; shlex.split modelled for text without quotes. Mostly finite: the SMT content is '
                     'the written values and the presence flags.',
                ref='DESIGN.md section 5 C16'),
    'C17': dict(level='model_checking',
                text='(a) symbolic balance obligations: for all 40 argument type strings of TeX.readArgumentAndSource x delimiter spec x every token stream of 0-2 (thorough 3) '
                     'symbolic characters over a 10-character alphabet (end of input at every position) and 10 register-led streams, the parameter-enable level and flag after '
                     'the call equal those before; (b) after each of 30 documents built from risky constructs (boxes, nested lists, ifthen tests, register-to-register '
                     'assignments, math/list left open at end of input, classes, \\newcolumntype) the snapshot of interpreter-wide state equals the initial one; (c) for all '
                     'pairs A;B over the set, B after A has the same canonical tree as B alone.',
                note='(b) and (c) enumerate a finite document set concretely (differential execution is not symbolic); the solver-based part is (a). Leaks that are architectural '
                     'are listed as known findings F9a-d (register values on shared classes, article ProcessOptions class patching, column types) and reported as KNOWN-FINDING; '
                     'rendered files of A;B vs B are outside the claim.',
                ref='DESIGN.md section 5 C17'),
    'C18': dict(level='model_checking',
                text='splitColumns: for <= 5 (thorough 8) entries with UNBOUNDED symbolic sizes and 1..4 columns the result is an order-preserving partition into exactly the requested '
                     'number of columns; entry parser: every \\index argument of 4 (6) symbolic characters over {a, b, !, @, |, "} is split into levels / sort keys / format as makeindex '
                     'syntax prescribes; sort + prefix merge: every ordered selection of 3 (4) entries from a pool of 9 (12) key paths gives the reference tree (one line per path, '
                     'one page per occurrence, collation order, ties in any order); groups: symbolic ASCII initials land under the right heading, groups and columns partition the entries in order.',
                note='Collation is this installation\'s fallback (lower-casing); unidecode modelled as the identity on ASCII; int(a/b) as truncated real division. Key multisets for '
                     'sort+merge are finite choices. Non-ASCII keys are outside the claim.',
                ref='DESIGN.md section 5 C18'),
    'C19': dict(level='model_checking',
                text='Bounded exhaustive over all expression trees of depth <= 2 (thorough: depth 3 with <= 5 atoms, depth-4 chains) written as LaTeX source: for every '
                     'valuation of the atoms (booleans, symbolic digits and relation characters, symbolic \\equal letters) exactly the branch denoted by the expression '
                     'is processed; \\whiledo iterates exactly bound times for every bound 0..6.',
                note='Trusted: z3, AST rewrite, the direct recursive evaluator and its linearisation (binary right operands and binary \\not operands parenthesised).',
                ref='DESIGN.md section 5 C19'),
    'C20': dict(level='fault_enumeration',
                text='Exhaustive enumeration of decoder behaviours through a nondeterministic stub: for each of 12 exception classes pickle.load can raise and each value of a shape '
                     'grammar (None/int/str/list/tuple/dict around the per-renderer and per-label entries, with and without another renderer\'s data) x {restore, persist, '
                     'persist then restore}: restore never raises and only adds well-formed labels, persist never raises, the re-saved file is loadable by the real pickle, '
                     'contains every current label and keeps a well-formed other renderer\'s data, and restoring it yields the labels; round trip of labels with symbolic names '
                     'across two renderer keys.',
                note='The C decoder cannot be encoded: the stub over-approximates every truncation and bit flip (the decoder can only raise or return some value). Concrete replay '
                     'uses real bytes and the real pickle.load wherever a byte recipe exists. Finite enumeration; the solver only decides the round-trip label names.',
                ref='DESIGN.md section 5 C20',
                technique='symbolic execution of the real persist/restore against a nondeterministic decoder stub (exception classes and a value-shape grammar), counterexamples replayed with real bytes'),
}

NOT_YET = {}

ALL = ['C%02d' % i for i in range(1, 21)]


def main():
    checks = []
    for pid in ALL:
        if pid not in CLAIMED:
            continue
        c = CLAIMED[pid]
        checks.append({
            'property_id': pid,
            'quick_cmd': './check %s --tier quick' % pid,
            'thorough_cmd': './check %s --tier thorough' % pid,
            'evidence_file': '/verif/evidence/%s.json' % pid,
            'replay_cmd_template': './check --replay {path}',
            'engine': 'sxv',
            'level_claimed': {'category': c['level'], 'text': c['text'], 'design_ref': c['ref']},
            'level_note': c['note'],
            'technique': c.get('technique', TECH),
        })
    na = [{'property_id': p, 'reason': NOT_YET.get(p, 'check not built yet in this round (planned, see DESIGN.md section 5); not claimed until it exists')}
          for p in ALL if p not in CLAIMED]
    m = {
        'version': 1,
        'setup_cmd': './setup.sh',
        'hooks': {'guard': 'PLASTEX_VERIF', 'enable': 'none needed: the checks load /repo source through an AST-instrumenting import hook (sxv/inst.py); no source hooks exist',
                  'baseline_off_cmd': '/verif/tools_baseline.sh', 'source_commits': [], 'add_only': True},
        'engines': [{'name': 'sxv', 'path': '/verif/sxv', 'serves_properties': sorted(CLAIMED),
                     'kind_free_text': 'own symbolic executor for Python over z3: proxy values + AST import hook over the real plasTeX source, DFS by re-execution, '
                                       '16-way prefix partitioning, concrete replay of every counterexample against the uninstrumented package'}],
        'checks': checks,
        'not_applicable': na,
        'notes': 'Exit codes: 0 held within bounds, 1 VIOLATION (replayed), 3 inconclusive. Genuine defects repaired in /repo are listed as fixed in known_findings.json; '
                 'defects recorded rather than repaired (status known there; DESIGN.md section 4) are printed as KNOWN-FINDING lines by the checks of C02, C04, C05, C07, C10 and C17 and their '
                 'obligations are reported apart from the proved ones.',
    }
    json.dump(m, open(os.path.join(ROOT, 'MANIFEST.json'), 'w'), indent=1)
    print('MANIFEST.json: %d checks, %d not_applicable' % (len(checks), len(na)))


if __name__ == '__main__':
    main()
