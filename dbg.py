"""debug helper: run one harness in-process and print tracebacks of degraded/unmodelled paths"""
import sys, traceback, json
sys.path.insert(0, '/verif')
sys.setrecursionlimit(10000)
from sxv import inst, core
inst.install()
import importlib
prop, harness = sys.argv[1], sys.argv[2]
params = json.loads(sys.argv[3]) if len(sys.argv) > 3 else {}
maxp = int(sys.argv[4]) if len(sys.argv) > 4 else 200
mod = importlib.import_module('sxv.props.' + prop.lower())
h = getattr(mod, harness)
seen = set()
def fn(e):
    inst.reset_path_state()
    if hasattr(mod, 'reset'): mod.reset()
    try:
        h(e, **params)
    except (core.Unmodelled, Exception) as ex:
        k = (type(ex).__name__, str(ex)[:80])
        if k not in seen and not isinstance(ex, core.PathAbort):
            seen.add(k)
            traceback.print_exc()
        raise
e = core.Engine(max_paths=maxp, max_failures=1000)
e.run(fn)
print(json.dumps(e.stats(), indent=1))
for f in e.failures[:10]: print('FAIL', f)
print('degraded', len(e.degraded), [d['reason'] for d in e.degraded[:5]])
