"""C04  Grouping restores every local change and leaves the context stack balanced.

(a) token-level programs written as LaTeX source: two nested scopes of every kind ({ }, \\begingroup, environment, $ $, macro
    argument, tabular cell) with local/global definitions, \\let, \\catcode changes, \\makeatletter, \\newif setters in between;
    an observer macro records at five points: stack depth, whichCode(q) for a SYMBOLIC query character q (so "for every character the
    table after the group equals the table before" is one solver answer), name membership, and the visible meaning of three macros.
(b) environments closed over 1-3 unclosed groups.
(c) histories of direct Context API operations vs a frame model (one-step from a stack of up to 3 frames)."""
import itertools
from sxv import api
from sxv.api import Src, eq
from sxv.props import common

import plasTeX
from plasTeX import TeXDocument, Command
from plasTeX.TeX import TeX
from plasTeX.Context import Context
from plasTeX.Tokenizer import Other, Letter, EscapeSequence

PROP = 'C04'
LEVEL = 'model_checking'
FUNCTIONS = ['plasTeX.Context:Context.push', 'plasTeX.Context:Context.pop', 'plasTeX.Context:Context.mapMethods', 'plasTeX.Context:Context.createContext',
             'plasTeX.Context:Context.addGlobal', 'plasTeX.Context:Context.addLocal', 'plasTeX.Context:Context.let', 'plasTeX.Context:Context.get_let',
             'plasTeX.Context:Context.catcode', 'plasTeX.Context:Context.whichCode', 'plasTeX.Context:Context.__getitem__', 'plasTeX.Context:Context.newdef',
             'plasTeX.Context:Context.newcommand', 'plasTeX.Context:ContextItem.__getitem__', 'plasTeX.Context:ContextItem.keys', 'plasTeX.Context:ContextItem.has_key',
             'plasTeX.Base.TeX.Text:bgroup.invoke', 'plasTeX.Base.TeX.Text:egroup.invoke', 'plasTeX:Macro.invoke', 'plasTeX:Environment.invoke',
             'plasTeX.Base.TeX.Primitives:MathShift.invoke', 'plasTeX.Base.LaTeX.Arrays:Array.CellDelimiter.invoke', 'plasTeX.Base.LaTeX.Arrays:Array.EndRow.invoke']
RULE = ('one evaluation = one path = one program (or API history) x one class of the query character; non-trivial = the program changes a catcode or a definition inside a scope')
BOUNDS = {
    'quick': '(a) outer scope kind x inner scope kind (6 x 6) x a seed-rotated ninth (14) of the 125 triples of local edits {none, \\def, \\gdef, \\let+\\def, catcode change} placed before / inside / after '
             'the inner scope, query character unbounded; (b) environment closed over 1-3 unclosed groups x 5 edits; (c) one API operation from each of 4 stacks x all operations {push, push for an object, pop, addLocal, addGlobal, catcode, let, newdef under the name of a character alias made in an enclosing frame}, and all 2-operation histories from the 2-frame stack',
    'thorough': '(a) all 125 triples for all 36 scope pairs, plus triple nesting for braces; (c) API histories of length 2',
}
ASSUMPTIONS = ['the observer is a user macro (public Command API) that reads context state when it is expanded', 'numbers in \\catcode assignments are terminated by \\relax (normal form)']
OUTSIDE = ['histories of more than 2 direct API operations', 'unbalanced input other than unclosed groups inside an environment']
BUDGET_S = {'quick': 900, 'thorough': 3300}

SCOPES = {
    'brace': ('{', '}'),
    'begingroup': ('\\begingroup ', '\\endgroup '),
    'env': ('\\begin{center}', '\\end{center}'),
    'math': ('$', '$'),
    'arg': ('\\vqbox{', '}'),
    'cell': ('\\begin{tabular}{ll}', '&x\\\\\\end{tabular}'),
}
EDITS = ['none', 'def', 'gdef', 'let', 'cat']
# an ungrouped declaration (\bfseries) opens a frame of its own that only the end of the enclosing scope closes: edits made after it
DECL_TRIPLES = [t for t in itertools.product(['none', 'def', 'decldef'], repeat=3) if 'decldef' in t]
DEFAULT_CAT = {'\\': 0, '{': 1, '}': 2, '$': 3, '&': 4, '\n': 5, '#': 6, '^': 7, '_': 8, '\x00': 9, ' ': 10, '\t': 10, '\r': 10, '\f': 10, '~': 13, '%': 14}


def reset():
    common.reset_parser_state()


class Model:
    """frames of local definitions and catcode overrides; frame 0 is global"""

    def __init__(self):
        self.frames = [{'defs': {'vqa': 'G', 'vqb': 'H', 'vql': ''}, 'cat': {}, 'scope': True}]
        self.k = 0

    def push(self):
        self.frames.append({'defs': {}, 'cat': {}, 'scope': True})

    def pop(self):
        # closing a scope also closes the declarations opened inside it
        while not self.frames[-1].get('scope'):
            self.frames.pop()
        self.frames.pop()

    def extra(self):
        return sum(1 for f in self.frames if not f.get('scope', True))

    def lookup(self, name):
        for f in reversed(self.frames):
            if name in f['defs']:
                return f['defs'][name]
        return None

    def edit(self, kind, src):
        self.k += 1
        tag = 'abcdefghij'[self.k]
        if kind == 'def':
            src.append('\\def\\vqa{%s}' % tag)
            self.frames[-1]['defs']['vqa'] = tag
        elif kind == 'gdef':
            src.append('\\gdef\\vqb{%s}' % tag)
            self.frames[0]['defs']['vqb'] = tag          # lookup still yields the innermost live definition (property text)
        elif kind == 'let':
            src.append('\\let\\vql\\vqa \\def\\vqa{%s}' % tag)
            self.frames[-1]['defs']['vql'] = self.lookup('vqa')
            self.frames[-1]['defs']['vqa'] = tag
        elif kind == 'decldef':
            src.append('\\bfseries \\def\\vqa{%s}' % tag)
            self.frames.append({'defs': {}, 'cat': {}, 'scope': False})
            self.frames[-1]['defs']['vqa'] = tag
        elif kind == 'cat':
            which = ['@', '!', '~'][self.k % 3]
            code = [11, 13, 12][self.k % 3]
            src.append('\\catcode`\\%s=%d\\relax ' % (which, code))
            self.frames[-1]['cat'][which] = code

    def cat(self, e, q):
        for f in reversed(self.frames):
            for ch, code in f['cat'].items():
                if eq(q, ch):
                    return code
        for ch, code in DEFAULT_CAT.items():
            if eq(q, ch):
                return code
        o = api.ord_(q)
        if api.or_(api.and_(o >= 65, o <= 90), api.and_(o >= 97, o <= 122)):
            return 11
        return 12


def _observer(doc, q, log):
    class obs(Command):
        def invoke(self, tex):
            ctx = self.ownerDocument.context
            log.append({'depth': len(ctx.contexts), 'cat': ctx.whichCode(q),
                        'in': tuple(n in ctx for n in ('vqa', 'vqb', 'vql', 'nosuchname')),
                        'keys': tuple(n in ctx.keys() for n in ('vqa', 'vql'))})
            return []
    doc.context.addGlobal('obs', obs)


def _uses():
    return '[\\vqa\\vqb\\vql]\\obs '


def _expect_uses(m):
    return '[' + ''.join(m.lookup(n) or '' for n in ('vqa', 'vqb', 'vql')) + ']'


def h_scopes(e, outer, inner, lo, hi, unclosed=0, decl=False):
    triples = (DECL_TRIPLES if decl else list(itertools.product(EDITS, repeat=3)))[lo:hi]
    ed = triples[e.choice(len(triples), 'edits')]
    doc = TeXDocument()
    q = e.char('q')
    log = []
    _observer(doc, q, log)
    m = Model()
    src = []
    want_text = []
    want_obs = []

    def observe():
        src.append(_uses())
        want_text.append(_expect_uses(m))
        want_obs.append({'depth': len(m.frames), 'extra': m.extra(), 'cat': None, 'defs': (m.lookup('vqa') is not None, m.lookup('vqb') is not None, m.lookup('vql') is not None)})
        want_obs[-1]['frames'] = [dict(f['cat']) for f in m.frames]
    observe()
    o_open, o_close = SCOPES[outer]
    i_open, i_close = SCOPES[inner]
    src.append(o_open)
    m.push()
    m.edit(ed[0], src)
    observe()
    src.append(i_open)
    m.push()
    m.edit(ed[1], src)
    observe()
    for _ in range(unclosed):
        src.append('{')
        m.push()
        m.edit('def', src)
    if unclosed:
        observe()
        for _ in range(unclosed):
            m.pop()
    src.append(i_close)
    m.pop()
    m.edit(ed[2], src)
    observe()
    src.append(o_close)
    m.pop()
    observe()
    text = '\\gdef\\vqa{G}\\gdef\\vqb{H}\\gdef\\vql{}' + ''.join(src)
    base_depth = None
    tex = TeX(doc)
    tex.input(Src(list(text)))
    try:
        out = tex.parse()
    except (KeyError, ValueError, TypeError, IndexError, AttributeError) as ex:
        e.fail_exception(ex)
        return
    got_text = ''.join(str(out.textContent).split())
    e.observe([got_text, [l['depth'] for l in log]])
    e.check(len(log) == len(want_obs), 'observer ran %d times, %d observation points written' % (len(log), len(want_obs)), 'structure')
    if len(log) != len(want_obs):
        return
    # visible meanings at the five points
    joined = ''.join(want_text)
    pos = 0
    ok = True
    for wt in want_text:
        k = got_text.find(wt, pos)
        if k < 0:
            ok = False
            break
        pos = k + len(wt)
    e.check(ok, 'visible meanings %r differ from the scoping model %r (outer=%s inner=%s edits=%s)' % (got_text, joined, outer, inner, ed), 'meaning')
    d0 = log[0]['depth']
    # balanced: matching observation points see the same stack depth; inner points are strictly deeper
    npts = len(log)
    e.check(log[-1]['depth'] == d0, 'stack depth after the outer scope closed is %+d relative to before it opened (outer=%s inner=%s unclosed=%d)'
            % (log[-1]['depth'] - d0, outer, inner, unclosed), 'depth')
    x = [w['extra'] for w in want_obs]         # frames of declarations in force at each point
    e.check(log[-2]['depth'] - x[-2] == log[1]['depth'] - x[1], 'stack depth after the inner scope closed is %+d relative to before it opened (outer=%s inner=%s unclosed=%d)'
            % ((log[-2]['depth'] - x[-2]) - (log[1]['depth'] - x[1]), outer, inner, unclosed), 'depth')
    e.check(log[1]['depth'] - x[1] > d0 and log[2]['depth'] - x[2] > log[1]['depth'] - x[1], 'scopes do not deepen the stack', 'depth')
    for i, (l, w) in enumerate(zip(log, want_obs)):
        e.check(l['in'][:3] == w['defs'] and l['in'][3] is not True and l['in'][3] in (False, None), 'name membership at point %d: %r, the model says %r' % (i, l['in'], w['defs']), 'membership')
        e.check(l['keys'] == (w['defs'][0], w['defs'][2]), 'keys() at point %d does not list the names visible through the parent frames' % i, 'membership')
        # catcode of the query character under the frames in force at that point
        mm = Model()
        mm.frames = [{'defs': {}, 'cat': c} for c in w['frames']]
        e.check(l['cat'] == mm.cat(e, q), 'category of the query character at point %d is %r' % (i, l['cat']), 'catcode')
    e.check(len(doc.context.contexts) <= d0, 'context stack deeper after the document than at its first observation point', 'depth')
    if any(x != 'none' for x in ed):
        e.nontriv()


def h_latexdefs(e, scope, which):
    """LaTeX's own definition commands are local to the scope they are issued in, like \\def"""
    doc = TeXDocument()
    o, c = SCOPES[scope]
    pc = e.char('p', 97, 122)
    if which == 'renewcommand':
        parts = ['\\newcommand{\\vqn}{G}', o, '\\renewcommand{\\vqn}{', pc, '}[\\vqn]', c, '[\\vqn]']
        want = ['[', pc, ']', '[', 'G', ']']
    elif which == 'newcommand':
        parts = [o, '\\newcommand{\\vqn}{', pc, '}[\\vqn]', c, '[\\vqn]']
        want = ['[', pc, ']', '[', ']']
    else:
        parts = ['\\newenvironment{vqe}{<}{>}', o, '\\renewenvironment{vqe}{(}{', pc, ')}\\begin{vqe}x\\end{vqe}', c, '\\begin{vqe}y\\end{vqe}']
        want = ['(', 'x', pc, ')', '<', 'y', '>']
    chars = []
    for x in parts:
        chars.extend(api.chars(x))
    tex = TeX(doc)
    tex.input(Src(chars))
    try:
        out = tex.parse()
    except (KeyError, ValueError, TypeError, IndexError, AttributeError) as ex:
        e.fail_exception(ex)
        return
    got = [ch for ch in api.chars(api.text_of(out.textContent)) if not eq(ch, ' ') and not eq(ch, '\n')]
    e.observe(api.cat(got))
    ok = len(got) == len(want) and api.all_([eq(a, b) for a, b in zip(got, want)])
    e.check(ok, '\\%s issued inside %s is still in force after the scope closed' % (which, scope), 'latex-def-global:' + which)
    e.nontriv()


def h_globalprefix(e, scope, form):
    """\\global in front of a definition makes it a global one (it survives the scope), like \\gdef"""
    doc = TeXDocument()
    o, c = SCOPES[scope]
    p, q = e.char('p', 97, 122), e.char('q', 97, 122)
    if form == 'def':
        inner = ['\\global\\def\\vqa{', q, '}']
    elif form == 'let':
        inner = ['\\def\\vqb{', q, '}\\global\\let\\vqa\\vqb ']
    else:
        inner = ['\\gdef\\vqa{', q, '}']
    parts = ['\\def\\vqa{', p, '}', o] + inner + [c, '[\\vqa]']
    chars = []
    for x in parts:
        chars.extend(api.chars(x))
    tex = TeX(doc)
    tex.input(Src(chars))
    try:
        out = tex.parse()
    except (KeyError, ValueError, TypeError, IndexError, AttributeError) as ex:
        e.fail_exception(ex)
        return
    got = [ch for ch in api.chars(api.text_of(out.textContent)) if not eq(ch, ' ') and not eq(ch, '\n')]
    e.observe(api.cat(got))
    ok = len(got) == 3 and api.all_([eq(got[0], '['), eq(got[1], q), eq(got[2], ']')])
    e.check(ok, 'a definition made with %s inside %s is not in force after the scope closed' % ('\\gdef' if form == 'gdef' else '\\global\\' + form, scope),
            'global-prefix:' + form if form != 'gdef' else 'meaning')
    e.nontriv()


# ------------------------------------------------------------------------------------------- (c) API histories
SHADOWED = object()


def h_api(e, nframes, nops):
    ctx = Context(load=True)
    q = e.char('q')
    model = [{'defs': {}, 'cat': {}, 'lets': {}}]
    objs = []
    doc = TeXDocument(context=ctx)

    def mk(name, tag):
        c = type(name, (Command,), {'str': tag})
        return c()
    base = len(ctx.contexts)
    # pre-state: nframes frames, alternately anonymous and owned by an object, each with a local definition / catcode change
    for i in range(nframes):
        if i % 2:
            o = doc.createElement('mbox')
            ctx.push(o)
            objs.append(o)
        else:
            ctx.push()
            objs.append(None)
        model.append({'defs': {}, 'cat': {}, 'lets': {}})
        if i == 0:
            ctx.addLocal('va', mk('va', 'f%d' % i))
            model[-1]['defs']['va'] = 'f%d' % i
            ctx.let(EscapeSequence('vk'), Other('?'))
            model[-1]['lets']['vk'] = '?'
        else:
            ctx.catcode('@', 11 + i)
            model[-1]['cat']['@'] = 11 + i
    OPS = ['push', 'pushobj', 'pop', 'addLocal', 'addGlobal', 'catcode', 'let', 'newdef']
    for k in range(nops):
        op = OPS[e.choice(len(OPS), 'op%d' % k)]
        if op == 'push':
            ctx.push()
            objs.append(None)
            model.append({'defs': {}, 'cat': {}, 'lets': {}})
        elif op == 'pushobj':
            o = doc.createElement('textbf')
            ctx.push(o)
            objs.append(o)
            model.append({'defs': {}, 'cat': {}, 'lets': {}})
        elif op == 'pop':
            if len(model) <= 1:
                continue
            o = objs.pop()
            if o is None:
                ctx.pop()
            else:
                ctx.pop(o)
            model.pop()
        elif op == 'addLocal':
            nm = ['va', 'vb'][k % 2]
            ctx.addLocal(nm, mk(nm, 'L%d' % k))
            model[-1]['defs'][nm] = 'L%d' % k
        elif op == 'addGlobal':
            nm = ['va', 'vb'][k % 2]
            ctx.addGlobal(nm, mk(nm, 'G%d' % k))
            model[0]['defs'][nm] = 'G%d' % k
        elif op == 'catcode':
            ch = ['@', '!'][k % 2]
            code = e.int('code%d' % k, 0, 15)
            ctx.catcode(ch, code)
            model[-1]['cat'][ch] = e.concretize(code.z) if e.symbolic else code
        elif op == 'let':
            ctx.let(EscapeSequence('vl'), Other('!'))
            model[-1]['lets']['vl'] = '!'
        elif op == 'newdef':
            # a local \def under the name of a character alias of an enclosing frame: while it is live TeX shows the definition
            # (plasTeX keeps showing the alias - known finding F43, nothing is asserted there); once its frame closes the alias is back
            ctx.newdef('vk', None, 'D%d' % k, local=True)
            model[-1]['lets']['vk'] = SHADOWED
        _check_api(e, ctx, model, q, base)
    e.nontriv()


def _check_api(e, ctx, model, q, base):
    e.check(len(ctx.contexts) - base == len(model) - 1, 'stack depth %d, model %d' % (len(ctx.contexts) - base, len(model) - 1), 'api-depth')
    for nm in ('va', 'vb'):
        want = None
        for f in reversed(model):
            if nm in f['defs']:
                want = f['defs'][nm]
                break
        if want is None:
            e.check(nm not in ctx, 'name %s visible though no live frame defines it' % nm, 'api-lookup')
        else:
            e.check(nm in ctx and ctx[nm].str == want, 'lookup of %s does not yield the innermost live definition' % nm, 'api-lookup')
    for nm in ('vl', 'vk'):
        tok = ctx.get_let(EscapeSequence(nm))
        want = None
        for f in reversed(model):
            if nm in f['lets']:
                want = f['lets'][nm]
                break
        if want is SHADOWED:
            continue
        e.check((str(tok) != nm) == (want is not None) and (want is None or str(tok) == want),
                '\\let alias \\%s resolves to %r, the innermost live frame that sets it says %r' % (nm, str(tok), want), 'api-let')
    mm = Model()
    mm.frames = [{'defs': {}, 'cat': f['cat']} for f in model]
    e.check(ctx.whichCode(q) == mm.cat(e, q), 'category of the query character differs from the frame model', 'api-catcode')


def jobs(tier, seed):
    J = []
    q = tier == 'quick'
    kinds = list(SCOPES)
    n = len(EDITS) ** 3
    for outer in kinds:
        for inner in kinds:
            if outer == 'math' and inner in ('math', 'env', 'cell'):
                continue
            if outer == 'cell' and inner == 'cell':
                continue
            chunk = 14 if q else 42
            rot = (seed + kinds.index(outer) * 5 + kinds.index(inner) * 2) % 9
            los = [rot * chunk] if q else [0, 42, 84]
            for lo in los:
                J.append(dict(harness='h_scopes', params=dict(outer=outer, inner=inner, lo=lo, hi=min(n, lo + chunk)), label='scopes %s>%s [%d:]' % (outer, inner, lo),
                              no_twin=(outer, inner) != ('brace', 'env')))
    nd = len(DECL_TRIPLES)
    for outer in kinds:
        for inner in kinds:
            if outer == 'math' or inner == 'math' or (outer == 'cell' and inner == 'cell'):
                continue
            los = [((seed + kinds.index(outer) + kinds.index(inner)) % 3) * 7] if q else [0, 7, 14]
            for lo in los:
                J.append(dict(harness='h_scopes', params=dict(outer=outer, inner=inner, lo=lo, hi=min(nd, lo + 7), decl=True), label='declarations %s>%s [%d:]' % (outer, inner, lo), no_twin=True))
    for u in (1, 2, 3):
        for outer in ('brace', 'env', 'begingroup'):
            for inner in ('env', 'cell'):
                if outer == 'env' and inner == 'env' and False:
                    continue
                J.append(dict(harness='h_scopes', params=dict(outer=outer, inner=inner, lo=0, hi=5, unclosed=u), label='unclosed %d in %s>%s' % (u, outer, inner), no_twin=True))
    for scope in ('brace', 'begingroup', 'env'):
        for form in ('gdef', 'def', 'let'):
            J.append(dict(harness='h_globalprefix', params=dict(scope=scope, form=form), label='global definition by %s in %s' % (form, scope), no_twin=True))
        for which in ('renewcommand', 'newcommand', 'newenvironment'):
            J.append(dict(harness='h_latexdefs', params=dict(scope=scope, which=which), label='%s in %s' % (which, scope), no_twin=True))
    for nf in (0, 1, 2, 3):
        J.append(dict(harness='h_api', params=dict(nframes=nf, nops=1 if q else 2), label='api from %d frames' % nf, no_twin=nf > 0))
    if q:
        J.append(dict(harness='h_api', params=dict(nframes=2, nops=2), label='api 2 ops from 2 frames', no_twin=True))
    return J
