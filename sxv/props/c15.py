"""C15  The filename generator yields unique, clean names in template order.

Real code: Filenames.__init__/parseFilenames/_newFilename/addExtension/__next__/__call__ driven through its public call
interface.  Binding *values* are short symbolic strings (collisions, blanks -> $title(n) word limit, forbidden characters are
decided by the solver), presence of each binding is a symbolic boolean.  Templates and history length are finite choices."""
import re
from sxv import api
from sxv.api import eq
from sxv.props import common

from plasTeX.Filenames import Filenames

PROP = 'C15'
LEVEL = 'model_checking'
FUNCTIONS = ['plasTeX.Filenames:Filenames.__init__', 'plasTeX.Filenames:Filenames.parseFilenames', 'plasTeX.Filenames:Filenames._newFilename',
             'plasTeX.Filenames:Filenames.addExtension', 'plasTeX.Filenames:Filenames.__next__', 'plasTeX.Filenames:Filenames.__call__']
RULE = ('one evaluation = one path = one template x one request history x one class of binding values (which values collide, contain blanks or forbidden '
        'characters, which bindings are present); non-trivial = >= 2 requests answered')
BOUNDS = {
    'quick': '7 templates of the documented grammar (static list, wildcard with 1-3 alternatives, $num with/without width, $title(n), no wildcard) x histories of 3 requests '
             '(4 for the two most common templates) x id of 1-2 and title of 1-3 symbolic characters over {a, b, blank, /} x each binding present or absent x reserved name on/off',
    'thorough': 'histories of 3-4 requests for all templates (5 for the most common one); id and title of up to 2 and 4 characters; exhaustion histories (more requests than names)',
}
ASSUMPTIONS = ['string.Template.substitute is modelled by its documented rule on the concrete template (validated against the real class at start-up)',
               'os.path.splitext modelled by its documented rule (validated at start-up)', 'binding values are strings over {a, b, blank, /} of bounded length']
OUTSIDE = ['templates outside the listed set', 'histories longer than the bound', 'binding values longer than 4 characters']
BUDGET_S = {'quick': 900, 'thorough': 3300}

BAD = ' /:'
TEMPLATES = {
    'T1': 'index [$id, $title(2), sect$num(3)]',
    'T2': '[$id, sect$num]',
    'T3': 'a b.txt $id-file [$title, x$num(2)]',
    'T4': 'single',
    'T5': '[$id]',
    'T6': 'index.html toc [$title(1)-$id, $id, f$num]',
    'T7': 'top $id',
}


# ------------------------------------------------------------------------------------------- reference generator
def ref_parse(spec):
    """static names and wildcard alternatives, from the documented grammar"""
    names = spec.split()
    # re-join a bracketed wildcard that contains blanks
    out, buf = [], None
    for n in names:
        if buf is not None:
            buf += n
            if ']' in n:
                out.append(buf)
                buf = None
        elif '[' in n and ']' not in n:
            buf = n
        else:
            out.append(n)
    static, wildcard = [], []
    for n in out:
        m = re.match(r'^(.*)\[(.*)\](.*)$', n)
        if m and not wildcard:
            wildcard = [m.group(1) + alt.strip() + m.group(3) for alt in m.group(2).split(',') if alt.strip()]
            break
        static.append(n)
    if not wildcard and static:
        wildcard = [static.pop()]
    return static, wildcard


VAR = re.compile(r'\$(\w+)(?:\((\d+)\))?')


class RefGen:
    def __init__(self, e, spec, ext, reserved):
        self.e = e
        self.static, self.wild = ref_parse(spec)
        self.ext = ext
        self.issued = list(reserved)
        self.num = 1
        self.passes = 0
        self.dead = False

    def clean(self, v):
        return api.cat([('-' if self.e.one_of(c, BAD) else c) for c in api.chars(v)])

    def subst(self, tmpl, b):
        """returns (name, used_num) or None if a variable is unbound"""
        out = []
        pos = 0
        used = False
        for m in VAR.finditer(tmpl):
            out.append(tmpl[pos:m.start()])
            pos = m.end()
            key, fmt = m.group(1), m.group(2)
            if key == 'num':
                out.append(('%%.%sd' % (fmt or '')) % self.num)
                used = True
                continue
            if key not in b:
                return None
            v = b[key]
            if fmt:
                # the first n blank-separated words of the value as written ...
                words = []
                cur = []
                for c in api.chars(v) + [' ']:
                    if eq(c, ' '):
                        if cur:
                            words.append(api.cat(cur))
                            cur = []
                    else:
                        cur.append(c)
                if not words:
                    return None                        # a word-limited variable without a single word is as good as unbound: the alternative does not apply
                parts = []
                for i, w in enumerate(words[:int(fmt)]):
                    if i:
                        parts.append(' ')
                    parts.append(w)
                v = api.cat(parts)
            # ... then forbidden characters replaced
            v = self.clean(v)
            out.append(v)
        out.append(tmpl[pos:])
        name = api.cat(out)
        # extension rule: add it when the last component has none
        cs = api.chars(name)
        dot = -1
        for i in range(len(cs) - 1, -1, -1):
            if eq(cs[i], '/'):
                break
            if eq(cs[i], '.'):
                dot = i
                break
        has_ext = False
        if dot > 0:
            k = dot - 1
            while k >= 0 and not eq(cs[k], '/'):
                if not eq(cs[k], '.'):
                    has_ext = True
                    break
                k -= 1
        if not has_ext:
            name = api.cat([name, self.ext])
        return name, used

    def taken(self, name):
        for n in self.issued:
            if eq(n, name):
                return True
        return False

    def request(self, b):
        """returns a name, or raises ValueError when no fresh name can be formed"""
        if self.dead:
            raise ValueError('Filename could not be created.')
        while self.static:
            t = self.static.pop(0)
            r = self.subst(t, b)
            if r is None:
                continue
            name, used = r
            if used:
                self.num += 1
            if self.taken(name):
                continue
            self.issued.append(name)
            return name
        while True:
            self.passes += 1
            for t in self.wild:
                r = self.subst(t, b)
                if r is None:
                    continue
                name, used = r
                if used:
                    self.num += 1
                if self.taken(name):
                    continue
                self.issued.append(name)
                return name
            if self.passes > 100:
                self.dead = True
                raise ValueError('Filename could not be created.')


def reset():
    pass


def _value(e, name, n, alphabet='ab /'):
    cs = []
    for i in range(n):
        c = e.char('%s_%d' % (name, i), 32, 98)
        e.assume(e.one_of(c, alphabet))
        cs.append(c)
    return api.cat(cs)


def h_files(e, tid, nreq, idlen, titlelen, reserved=False):
    spec = TEMPLATES[tid]
    res = (['index.html'] if reserved is True else list(reserved)) if reserved else []
    inv = {n: None for n in res}
    fn = Filenames(spec, charsub=[BAD, '-'], extension='.html', invalid=inv)
    ref = RefGen(e, spec, '.html', res)
    names = []
    for r in range(nreq):
        b = {}
        if e.bool('has_id%d' % r):
            b['id'] = _value(e, 'id%d' % r, idlen)
        if e.bool('has_title%d' % r):
            b['title'] = _value(e, 'title%d' % r, titlelen, 'ab ')
        # expected
        want, werr = None, None
        try:
            want = ref.request(b)
        except ValueError:
            werr = 'ValueError'
        for k, v in b.items():
            fn.variables[k] = v
        got, gerr = None, None
        try:
            got = fn()
        except ValueError:
            gerr = 'ValueError'
        except (KeyError, IndexError, TypeError, AttributeError) as ex:
            e.fail_exception(ex)
            return
        if werr:
            e.check(gerr == werr, 'no fresh name can be formed (request %d) but the generator returned %r instead of reporting an error' % (r + 1, got),
                    'no-error-when-exhausted' + (':after-error' if ref.dead and ref.passes > 101 or (r and names and names[-1] is None) else ''))
            names.append(None)
            continue
        e.check(gerr is None, 'generator raised %s although a fresh name exists (request %d)' % (gerr, r + 1), 'spurious-error')
        e.check(got is not None, 'generator returned None (request %d)' % (r + 1), 'returned-none')
        e.check(eq(got, want), 'request %d: name differs from the template-order rule' % (r + 1), 'wrong-name')
        e.check(api.all_([api.not_(eq(prev, got)) for prev in names if prev is not None]), 'name issued twice', 'duplicate')
        e.check(api.all_([api.not_(eq(got, n)) for n in res]), 'reserved name issued', 'reserved')
        e.check(api.all_([e.none_of(c, BAD) for c in api.chars(got)]), 'forbidden character in issued name', 'bad-char')
        names.append(got)
    e.observe([n for n in names])
    if nreq >= 2:
        e.nontriv()


def jobs(tier, seed):
    J = []
    q = tier == 'quick'
    for tid in TEMPLATES:
        common_t = tid in ('T1', 'T2')
        for reserved in ((False, True) if tid in ('T1', 'T6') else (False,)):
            if q:
                cfgs = [(1, 1, 3 if common_t else (3 if tid in ('T4', 'T5', 'T7') else 2))]
                if tid in ('T1', 'T3', 'T6') and not reserved:
                    cfgs.append((2, 3, 2))
            else:
                cfgs = [(1, 1, 4 if common_t else 3), (2, 3, 2), (2, 4, 1)] + ([(1, 1, 5)] if tid == 'T2' else [])
            for idlen, titlelen, n in cfgs:
                J.append(dict(harness='h_files', params=dict(tid=tid, nreq=n, idlen=idlen, titlelen=titlelen, reserved=reserved),
                              label='%s n=%d id%d title%d%s' % (tid, n, idlen, titlelen, ' reserved' if reserved else ''), split=6))
    # a numbered candidate that is reserved: $num must advance past it
    J.append(dict(harness='h_files', params=dict(tid='T2', nreq=3, idlen=1, titlelen=1, reserved=['sect2.html']), label='T2 reserved sect2', split=6))
    J.append(dict(harness='h_files', params=dict(tid='T1', nreq=3, idlen=1, titlelen=1, reserved=['sect001.html', 'index.html']), label='T1 reserved sect001', split=6))
    J.append(dict(harness='h_files', params=dict(tid='T6', nreq=3 if q else 4, idlen=1, titlelen=1, reserved=['f2.html', 'toc.html']), label='T6 reserved f2/toc', split=6))
    return J
