"""C12  Rendered HTML never turns document text into markup.

The real PageTemplate renderer object is used with NO templates loaded, so every element falls back to the renderer's default
hook and exactly the text path is exercised: PageTemplate.textDefault, Renderable.__str__ routing of text nodes and `.str`
shortcuts, PageTemplate.processFileContent (high-character escaping).  Text leaves of parsed skeletons are symbolic characters
from the adversarial classes (< > & ; # letters, any code point >= 128 up to U+10FFFF) and concrete tag-/entity-like strings.
Oracle: an HTML text decoder applied to the output yields exactly the source characters; the output contains no raw < or >;
with escaping on the output is pure ASCII and decodes to the same text."""
import os
from sxv import api
from sxv.api import eq, ord_
from sxv.props import common, render_common as RC

import plasTeX.Renderers as R
import plasTeX.Renderers.PageTemplate as PT

PROP = 'C12'
LEVEL = 'model_checking'
FUNCTIONS = ['plasTeX.Renderers.PageTemplate:Renderer.textDefault', 'plasTeX.Renderers.PageTemplate:Renderer.processFileContent', 'plasTeX.Renderers:Renderable.__str__',
             'plasTeX.Renderers:Renderer.render', 'plasTeX.Renderers:Renderer.cleanup']
RULE = ('one evaluation = one path = one skeleton position x escaping on/off x one class of the leaf characters; non-trivial = the leaf contains a markup metacharacter or a non-ASCII character')
BOUNDS = {
    'quick': '8 text-bearing positions (paragraph, footnote, list item, table cell, emphasised text, verbatim, \\verb, caption) x escape-high-chars on/off x a leaf of 2 symbolic '
             'characters over {<, >, ;, #, a} and every code point 128..0x10FFFF (& additionally in verbatim positions); 8 concrete tag-/entity-like strings in verbatim positions and via \\& in text',
    'thorough': 'leaves of 3 symbolic characters',
}
ASSUMPTIONS = ['no templates are loaded: what each Jinja2/ZPT template does with a node\'s string is outside the claim (compiled template code and markupsafe are beyond the engine)',
               'the image-placeholder regex of processFileContent is modelled as the identity when none of its required literals (width; height; depth;) can occur in the text',
               'section titles are arguments: a template-less renderer does not emit them, so they are not among the positions',
               'quote and dash characters are not part of the leaf alphabet (their typographic substitution is the subject of C07)']
OUTSIDE = ['template output (the part the property worries about most)', 'XHTML/HTML5 theme layouts', 'output encodings other than utf-8']
BUDGET_S = {'quick': 900, 'thorough': 3300}

POSITIONS = {
    'paragraph': ('text', ['p ', 'LEAF', ' q']),
    'footnote': ('text', ['a\\footnote{', 'LEAF', '}b']),
    'item': ('text', ['\\begin{itemize}\\item ', 'LEAF', '\\end{itemize}']),
    'cell': ('text', ['\\begin{tabular}{ll}u&', 'LEAF', '\\\\\\end{tabular}']),
    'emph': ('text', ['x \\emph{\\textbf{', 'LEAF', '}} y']),
    'verbatim': ('raw', ['\\begin{verbatim}', 'LEAF', '\\end{verbatim}']),
    'verb': ('raw', ['x \\verb|', 'LEAF', '| y']),
    'caption': ('text', ['\\begin{figure}\\caption{', 'LEAF', '}\\end{figure}']),
}
STRINGS = ['&lt;', '&amp;', '&#65;', '&copy;', '<b>x</b>', '</p>', '<script>alert(1)</script>', '<!-- c -->',
           '&x-width;', '&lt-height;', 'a&b-depth;&em;c']         # text that looks like the renderer's own image-size placeholders


def reset():
    RC.reset()


def decode(e, chars):
    """HTML text decoder: returns (decoded character list, saw_raw_angle, all_ascii)"""
    out = []
    raw = False
    i = 0
    n = len(chars)
    while i < n:
        c = chars[i]
        if eq(c, '&'):
            j = i + 1
            name = []
            while j < n and not eq(chars[j], ';'):
                name.append(chars[j])
                j += 1
                if j - i > 10:
                    break
            if j < n and eq(chars[j], ';') and name:
                if eq(name[0], '#'):
                    val = 0
                    ok = len(name) > 1
                    for d in name[1:]:
                        o = ord_(d)
                        if not api.and_(o >= 48, o <= 57):
                            ok = False
                            break
                        val = val * 10 + (o - 48)
                    if ok:
                        out.append(('code', val))
                        i = j + 1
                        continue
                else:
                    nm = api.cat(name)
                    hit = None
                    for k, v in (('amp', '&'), ('lt', '<'), ('gt', '>'), ('quot', '"'), ('nbsp', '\xa0')):
                        if eq(nm, k):
                            hit = v
                            break
                    if hit is not None:
                        out.append(('char', hit))
                        i = j + 1
                        continue
            out.append(('char', c))       # a bare ampersand is displayed as such
            i += 1
            continue
        if eq(c, '<') or eq(c, '>'):
            raw = True
        out.append(('char', c))
        i += 1
    return out, raw


def h_escape(e, pos, high, nch=2, string=None):
    ctx, tmpl = POSITIONS[pos]
    if string is None:
        cs = []
        for i in range(nch):
            c = e.char('t%d' % i, 35, 0x10FFFF)
            allowed = '<>;#a' + ('&' if ctx == 'raw' else '')
            e.assume(api.or_(e.one_of(c, allowed), e.between(c, 128, 0x10FFFF)))
            if pos == 'verb':
                e.assume(e.none_of(c, '|'))
            cs.append(c)
        leaf = ['m'] + cs + ['n']
        src_leaf = leaf
    else:
        leaf = list('m' + string + 'n')
        src_leaf = list('m' + (string if ctx == 'raw' else string.replace('&', '\\&').replace('#', '\\#')) + 'n')
    parts = ['\\documentclass{article}\\begin{document}\\section{T}intro\n\n']          # inside a section: text is normalised as in real documents
    for p in tmpl:
        parts.append(src_leaf if p == 'LEAF' else p)
    parts.append('\\end{document}')
    flat = []
    for p in parts:
        flat.extend(p if isinstance(p, list) else [p])
    try:
        doc, out = RC.parse(e, flat)
    except (KeyError, ValueError, TypeError, IndexError, AttributeError) as ex:
        e.fail_exception(ex)
        return
    doc.config['files']['escape-high-chars'] = high
    doc.config['files']['split-level'] = -10
    r = PT.Renderer()
    d = RC.workdir()
    cwd = os.getcwd()
    os.chdir(d)
    try:
        cap = RC.render(doc, r, d)
    except (KeyError, ValueError, TypeError, IndexError, AttributeError) as ex:
        e.fail_exception(ex)
        return
    finally:
        os.chdir(cwd)
        RC.cleanup(d)
    e.check(len(cap.files) == 1, 'files written: %d' % len(cap.files), 'structure')
    if len(cap.files) != 1:
        return
    content = list(cap.files.values())[0]
    chars = api.chars(content)
    e.observe(content)
    dec, raw = decode(e, chars)
    e.check(not raw, 'the output contains a raw < or > although no template put an element there: document text became markup', 'raw-markup')
    # locate the leaf in the decoded text: between the markers m ... n
    flatdec = []
    for kind, v in dec:
        flatdec.append(v if kind == 'char' else ('code', v))
    # find marker 'm' followed later by 'n'
    start = None
    for i, v in enumerate(flatdec):
        if not isinstance(v, tuple) and eq(v, 'm') is True:
            start = i
            break
    e.check(start is not None, 'the leaf is missing from the output', 'text-lost')
    if start is None:
        return
    got = flatdec[start:start + len(leaf)]
    e.check(len(got) == len(leaf), 'the leaf is truncated in the output', 'text-lost')
    if len(got) != len(leaf):
        return
    conds = []
    for g, w in zip(got, leaf):
        if isinstance(g, tuple):
            conds.append(ord_(w) == g[1])
        else:
            conds.append(eq(g, w))
    e.check(api.all_(conds), 'decoding the output as HTML does not give back the characters of the %s leaf' % pos, 'text-changed:' + ctx)
    if high:
        e.check(api.all_([ord_(c) < 128 for c in chars]), 'escape-high-chars is on but the output is not pure ASCII', 'not-ascii')
    e.nontriv()


def jobs(tier, seed):
    J = []
    q = tier == 'quick'
    for pos in POSITIONS:
        for high in (False, True):
            J.append(dict(harness='h_escape', params=dict(pos=pos, high=high, nch=2 if q else 3), label='escape %s high=%s' % (pos, high), no_twin=(pos, high) != ('paragraph', False)))
    for i, sx in enumerate(STRINGS):
        for pos in ('verbatim', 'verb', 'paragraph', 'footnote'):
            if pos in ('paragraph', 'footnote') and ('<!--' in sx):
                continue
            J.append(dict(harness='h_escape', params=dict(pos=pos, high=bool(i % 2), string=sx), label='string %r in %s' % (sx, pos), no_twin=True))
    return J
