"""C05  Arguments are delimited, typed and bound as the macro's signature declares; numeric scanners denote TeX's values.

(A) numeric scanners: literal skeletons written as *source characters* (signs, radix mark, digits drawn from a range that
    includes the neighbours of the digit set, fraction forms, `true`, unit letters in either case, fil orders, registers)
    through the real tokenizer into TeX.readInteger / readDecimal / readDimen / readGlue.  Oracle: TeX's grammar evaluated on
    the same symbolic characters (exact integers / rationals), "exactly the literal is consumed", parameter-enable level balanced.
(B) signatures: generated `args` strings compiled by Macro.arguments and bound by Macro.parse / readArgumentAndSource /
    readGrouping / readToken / readCharacter / cast*, invocation characters symbolic (a character may be the delimiter itself)."""
import itertools
from fractions import Fraction
from sxv import api
from sxv.api import Src, ord_, eq
from sxv.props import common

import plasTeX
from plasTeX import TeXDocument, Command
from plasTeX.TeX import TeX

PROP = 'C05'
LEVEL = 'model_checking'
FUNCTIONS = ['plasTeX.TeX:TeX.readInteger', 'plasTeX.TeX:TeX.readDecimal', 'plasTeX.TeX:TeX.readDimen', 'plasTeX.TeX:TeX.readUnitOfMeasure',
             'plasTeX.TeX:TeX.readKeyword', 'plasTeX.TeX:TeX.readSequence', 'plasTeX.TeX:TeX.readOptionalSigns', 'plasTeX.TeX:TeX.readOneOptionalSpace',
             'plasTeX.TeX:TeX.readGlue', 'plasTeX.TeX:TeX.readStretch', 'plasTeX.TeX:TeX.readShrink', 'plasTeX.TeX:TeX.readArgumentAndSource',
             'plasTeX.TeX:TeX.readToken', 'plasTeX.TeX:TeX.readCharacter', 'plasTeX.TeX:TeX.readGrouping', 'plasTeX.TeX:TeX.cast', 'plasTeX.TeX:TeX.castString',
             'plasTeX.TeX:TeX.castNumber', 'plasTeX.TeX:TeX.castDecimal', 'plasTeX.TeX:TeX.castDimen', 'plasTeX.TeX:TeX.castList', 'plasTeX.TeX:TeX.castDictionary',
             'plasTeX.TeX:TeX.normalize', 'plasTeX:Macro.arguments', 'plasTeX:Macro.parse', 'plasTeX:number.__new__', 'plasTeX:dimen.__new__', 'plasTeX:glue.__init__',
             'plasTeX:ParameterCommand.enable', 'plasTeX:ParameterCommand.disable']
RULE = ('one evaluation = one path = one literal/invocation skeleton x one class of its symbolic characters; non-trivial = a conforming literal or invocation '
        '(the oracle accepted it and value/binding/consumption obligations were checked)')
BOUNDS = {
    'quick': 'integers: sign run <= 2 (each of + - blank), radix in {decimal, octal, hex, character code}, <= 3 digit characters each drawn from the digit range plus its '
             'two neighbours, 7 followers, plus count registers with unbounded values; dimensions: 5 decimal forms x 2 symbolic unit letters (either case) x {true, no true} '
             'and register multiples; decimal constants (5 forms x sign run <= 2) through readDecimal; glue: dimen plus/minus with the 3 fil orders; glue and muglue registers with '
             'stretch/shrink components under a sign run of 2; signatures: 1-2 arguments over {*, [], (), <>, mandatory} x {str, int, float, dimen, list, dict, nox, none} '
             'with 2-3 symbolic content characters; stream-read types Number, Dimen, Glue, Tok, cs followed by a mandatory argument',
    'thorough': 'sign run <= 3, <= 4 digits, all followers; dimension forms with 2 integer and 2 fraction digits; glue with symbolic units on each component; '
                'signatures with up to 3 arguments and 3 content characters',
}
ASSUMPTIONS = ['dimensions: plasTeX stores floats, the oracle is the exact rational value with TeX\'s unit ratios; values agree within (1 + unit/pt) sp (DESIGN.md section 3); '
               'float arithmetic modelled over z3 reals with each float constant taken at its exact binary value',
               'unit letters are ASCII', 'dimen register values lie in TeX\'s range |d| <= 2^30 sp', 'hex digits are 0-9A-F as in TeX (plasTeX additionally accepts a-f)',
               'the optional blank after a character constant (`c) is not required to be consumed (plasTeX leaves it)',
               'an integer constant followed *directly* (no blank) by a register is multiplied by it - not TeX, but pinned by the repository\'s own tests (Numbers.Parameters); followers of that shape are not generated',
               'brackets of bracketed arguments nest (the property says nested brackets are matched; LaTeX itself stops at the first closing bracket)']
OUTSIDE = ['signatures with more than 3 arguments', 'mu units in literals', 'arguments of type url/label/ref', 'literals followed by a newline']
BUDGET_S = {'quick': 900, 'thorough': 3300}

FOLLOW = ['x', ' x', '', ' ', '\\relax x', '{x}', '.x', ' \\probe x', ' \\tolerance x']
FOLLOW_CS = ['1', ' x', '', ' ', '\\relax x', '{x}', '.x', ' \\probe x', ' \\tolerance x']        # after a control word


class probe(plasTeX.Command):
    """a macro with a side effect: it must not run while the number before it (ended by a blank) is still being read"""
    hits = 0

    def invoke(self, tex):
        probe.hits += 1


def _doc():
    doc = TeXDocument()
    doc.context.addGlobal('probe', probe)
    probe.hits = 0
    return doc


def _probe_untouched(e, follow, what):
    if 'probe' in follow:
        e.check(probe.hits == 0, 'the macro after the blank that ends the %s was expanded while the %s was being read' % (what, what), 'lookahead-expanded')
UNITS = {'pt': Fraction(1), 'pc': Fraction(12), 'in': Fraction(7227, 100), 'bp': Fraction(7227, 7200), 'cm': Fraction(7227, 254),
         'mm': Fraction(7227, 2540), 'dd': Fraction(1238, 1157), 'cc': Fraction(14856, 1157), 'sp': Fraction(1, 65536),
         'ex': Fraction(5), 'em': Fraction(11)}


def reset():
    common.reset_parser_state()


def _tokens_of(chars):
    """tokens of a fresh tokenizer over `chars` as [catcode, text] (the lexer itself is the subject of C01)"""
    t = TeX(TeXDocument())
    t.input(Src(chars))
    return [[x.catcode, api.text_of(x)] for x in t.itertokens()]


def _norm(x):
    # a look-ahead token that the scanner expanded and pushed back comes out as an element: same token for our purposes
    if getattr(x, 'nodeType', None) == 1:
        name = x.nodeName
        if name == 'bgroup':
            return [1, '{']
        if name == 'egroup':
            return [2, '}']
        return [0, name]
    return [x.catcode, api.text_of(x)]


def _rest(tex):
    return [_norm(x) for x in tex.itertokens()]


def _expected_rest(chars, j):
    """tokens the lexer delivers for chars[j:] when it is in the middle of a line (a leading blank run is one space token)"""
    if j < len(chars) and eq(chars[j], ' '):
        k = j
        while k < len(chars) and eq(chars[k], ' '):
            k += 1
        return [[10, ' ']] + _tokens_of(chars[k:])
    return _tokens_of(chars[j:])


def _same_tokens(a, b):
    if len(a) != len(b):
        return False
    r = True
    for (ca, ta), (cb, tb) in zip(a, b):
        if ca != cb:
            return False
        r = api.and_(r, eq(ta, tb))
    return r


def _signs(e, chars):
    """TeX optional signs: returns (sign, number of characters consumed)"""
    sign, k = 1, 0
    while k < len(chars):
        c = chars[k]
        if eq(c, '-'):
            sign = -sign
        elif eq(c, '+') or eq(c, ' '):
            pass
        else:
            break
        k += 1
    return sign, k


def _isdigit(c, radix):
    o = ord_(c)
    if radix == 10:
        return api.and_(o >= 48, o <= 57)
    if radix == 8:
        return api.and_(o >= 48, o <= 55)
    return api.or_(api.and_(o >= 48, o <= 57), api.and_(o >= 65, o <= 70))


def _digval(c):
    o = ord_(c)
    if o <= 57:
        return o - 48
    return o - 55


def h_int(e, radix, nsigns, ndig, follow):
    doc = _doc()
    signs = []
    for i in range(nsigns):
        c = e.char('s%d' % i, 32, 45)
        e.assume(e.one_of(c, '+- '))
        signs.append(c)
    if radix == 10:
        digs = [e.char('d%d' % i, 47, 58) for i in range(ndig)]
        mark = []
    elif radix == 8:
        digs = [e.char('d%d' % i, 47, 57) for i in range(ndig)]
        mark = ["'"]
    else:
        digs = []
        for i in range(ndig):
            c = e.char('d%d' % i, 47, 71)
            e.assume(api.or_(e.between(c, 47, 58), e.between(c, 64, 71)))
            digs.append(c)
        mark = ['"']
    chars = signs + mark + digs + list(follow) + ['|']
    tex = TeX(doc)
    tex.input(Src(chars))
    lvl = plasTeX.ParameterCommand._enablelevel
    try:
        n = tex.readInteger()
        rest = _rest(tex)
    except (ValueError, TypeError, IndexError, AttributeError) as ex:
        e.fail_exception(ex)
        return
    e.check(plasTeX.ParameterCommand._enablelevel == lvl, 'parameter-enable level not restored by readInteger', 'enable-level')
    _probe_untouched(e, follow, 'number')
    # ---- oracle
    sign, k = _signs(e, chars)
    if mark:
        if not (k < len(chars) and eq(chars[k], mark[0])):
            return                      # (cannot happen: the mark is concrete)
        k += 1
    j = k
    val = 0
    while j < len(chars) and _isdigit(chars[j], radix):
        val = val * radix + _digval(chars[j])
        j += 1
    if j == k:
        e.tag('missing-number')          # not a TeX number: nothing is claimed
        return
    if j < len(chars) and eq(chars[j], ' '):
        j += 1                           # one optional space
    e.tag('radix%d' % radix)
    e.nontriv()
    e.observe([n if isinstance(n, int) else n, rest])
    e.check(n == sign * val, 'readInteger value differs from TeX\'s (radix %d)' % radix, 'int-value')
    e.check(_same_tokens(rest, _tokens_of(chars[j:])), 'readInteger did not consume exactly the literal (radix %d)' % radix, 'int-consumed')


def h_charcode(e, follow):
    doc = _doc()
    c = e.char('c', 33, 0x2FF)
    e.assume(e.none_of(c, '\\{}$&#^_~%'))
    s = e.char('s', 32, 45)
    e.assume(e.one_of(s, '+- '))
    chars = [s, '`', c] + list(follow) + ['|']
    tex = TeX(doc)
    tex.input(Src(chars))
    lvl = plasTeX.ParameterCommand._enablelevel
    try:
        n = tex.readInteger()
        rest = _rest(tex)
    except (ValueError, TypeError, IndexError, AttributeError) as ex:
        e.fail_exception(ex)
        return
    e.check(plasTeX.ParameterCommand._enablelevel == lvl, 'parameter-enable level not restored', 'enable-level')
    _probe_untouched(e, follow, 'character code')
    sign = -1 if eq(s, '-') else 1
    e.nontriv()
    e.check(n == sign * ord_(c), 'character constant value', 'int-value:char')
    ok = _same_tokens(rest, _expected_rest(chars, 3))
    if follow.startswith(' '):
        ok = api.or_(ok, _same_tokens(rest, _tokens_of(chars[4:])))
    e.check(ok, 'character constant did not consume exactly the literal', 'int-consumed:char')


def h_intreg(e, follow):
    doc = _doc()
    doc.context.newcount('ra')
    v = e.int('ra')
    doc.context['ra'].value = e.num(plasTeX.count, v)
    s = [e.char('s%d' % i, 32, 45) for i in range(2)]
    for c in s:
        e.assume(e.one_of(c, '+- '))
    chars = s + list('\\ra') + list(follow) + ['|']
    tex = TeX(doc)
    tex.input(Src(chars))
    lvl = plasTeX.ParameterCommand._enablelevel
    n = tex.readInteger()
    rest = _rest(tex)
    e.check(plasTeX.ParameterCommand._enablelevel == lvl, 'parameter-enable level not restored', 'enable-level')
    _probe_untouched(e, follow, 'register')
    sign, k = _signs(e, chars)
    e.nontriv()
    e.check(n == sign * v, 'register value/sign', 'int-value:register')
    # blanks after a control word are skipped by the lexer
    suffix = list(follow.lstrip(' ')) + ['|']
    e.check(_same_tokens(rest, _tokens_of(suffix)), 'register read consumed more than the register', 'int-consumed:register')


DEC_FORMS = ['DD', 'D.D', '.D', 'D.', 'D,D', 'DD.DD']


def _decimal(e, form, pfx):
    """characters of a decimal literal with symbolic digits, and its exact value as a (numerator expr, denominator int)"""
    chars, ip, fp, seen = [], [], [], False
    n = 0
    for ch in form:
        if ch == 'D':
            d = e.char('%s%d' % (pfx, n), 48, 57)
            n += 1
            chars.append(d)
            (fp if seen else ip).append(ord_(d) - 48)
        else:
            chars.append(ch)
            seen = True
    num = 0
    for d in ip + fp:
        num = num * 10 + d
    return chars, num, 10 ** len(fp)


def _unit(e, pfx, allow_fil=False):
    """two symbolic unit letters (either case); returns (chars, name or None)"""
    u = []
    for i in range(2):
        c = e.char('%s%d' % (pfx, i), 65, 122)
        e.assume(api.or_(e.between(c, 65, 90), e.between(c, 97, 122)))
        u.append(c)
    for name in UNITS:
        if api.and_(e.one_of(u[0], name[0] + name[0].upper()), e.one_of(u[1], name[1] + name[1].upper())):
            return u, name
    return u, None


def h_dimen(e, form, true_kw, follow, nsigns=1):
    doc = _doc()
    signs = []
    for i in range(nsigns):
        c = e.char('s%d' % i, 32, 45)
        e.assume(e.one_of(c, '+- '))
        signs.append(c)
    dchars, num, den = _decimal(e, form, 'd')
    u, name = _unit(e, 'u')
    mid = list({'none': '', 'true': 'true', 'sp-true': ' true', 'TRUE': 'TrUe ', 'space': ' '}[true_kw])
    chars = signs + dchars + mid + u + list(follow) + ['|']
    tex = TeX(doc)
    tex.input(Src(chars))
    lvl = plasTeX.ParameterCommand._enablelevel
    try:
        v = tex.readDimen()
        rest = _rest(tex)
    except (ValueError, TypeError, IndexError, AttributeError) as ex:
        if name is None:
            return
        e.fail_exception(ex)
        return
    e.check(plasTeX.ParameterCommand._enablelevel == lvl, 'parameter-enable level not restored by readDimen', 'enable-level')
    _probe_untouched(e, follow, 'dimension')
    if name is None:
        e.tag('no-unit')
        return
    sign, _ = _signs(e, chars)
    ratio = UNITS[name]
    # exact value in sp:  sign * num/den * ratio * 65536
    expn = sign * num * ratio.numerator * 65536
    expd = den * ratio.denominator
    tol = 1 + ratio
    diff = v * expd - expn               # (v - exact) * expd
    bound = tol.numerator * expd
    e.tag('unit-' + name)
    e.nontriv()
    e.check(api.and_(diff * tol.denominator <= bound, diff * tol.denominator >= -bound),
            'readDimen value for unit %s differs from TeX\'s by more than (1+ratio) sp' % name, 'dimen-value')
    j = len(signs) + len(dchars) + len(mid) + 2
    if j < len(chars) and eq(chars[j], ' '):
        j += 1
    e.check(_same_tokens(rest, _tokens_of(chars[j:])), 'readDimen did not consume exactly the literal', 'dimen-consumed')


def h_dimreg(e, follow, mult):
    doc = _doc()
    doc.context.newdimen('da')
    dv = e.real('da')
    e.assume(api.and_(dv <= 2 ** 30, dv >= -2 ** 30))          # TeX's dimension range
    if e.symbolic:
        from sxv.core import RealProxy
        doc.context['da'].value = RealProxy(plasTeX.dimen, dv)
    else:
        doc.context['da'].value = plasTeX.dimen(dv)
    s = e.char('s', 32, 45)
    e.assume(e.one_of(s, '+- '))
    if mult:
        dchars, num, den = _decimal(e, 'D.D', 'm')
    else:
        dchars, num, den = [], 1, 1
    chars = [s] + dchars + list('\\da') + list(follow) + ['|']
    tex = TeX(doc)
    tex.input(Src(chars))
    lvl = plasTeX.ParameterCommand._enablelevel
    v = tex.readDimen()
    rest = _rest(tex)
    e.check(plasTeX.ParameterCommand._enablelevel == lvl, 'parameter-enable level not restored', 'enable-level')
    _probe_untouched(e, follow, 'register')
    sign = -1 if eq(s, '-') else 1
    e.nontriv()
    e.check(v * den == sign * num * dv, 'register (multiple) value', 'dimen-value:register')
    suffix = list(follow.lstrip(' ')) + ['|']
    e.check(_same_tokens(rest, _tokens_of(suffix)), 'register read consumed more than the register', 'dimen-consumed:register')


def h_decimal(e, form, nsigns, follow):
    """<optional signs><decimal constant> read by readDecimal (the scanner behind float-typed arguments)"""
    doc = _doc()
    signs = []
    for i in range(nsigns):
        c = e.char('s%d' % i, 32, 45)
        e.assume(e.one_of(c, '+- '))
        signs.append(c)
    dchars, num, den = _decimal(e, form, 'd')
    chars = signs + dchars + list(follow) + ['|']
    tex = TeX(doc)
    tex.input(Src(chars))
    lvl = plasTeX.ParameterCommand._enablelevel
    try:
        v = tex.readDecimal()
        rest = _rest(tex)
    except (ValueError, TypeError, IndexError, AttributeError) as ex:
        e.fail_exception(ex)
        return
    e.check(plasTeX.ParameterCommand._enablelevel == lvl, 'parameter-enable level not restored', 'enable-level')
    _probe_untouched(e, follow, 'decimal constant')
    sign, k = _signs(e, chars)
    e.nontriv()
    diff = v * den - sign * num
    e.check(api.and_(diff * 10 ** 9 <= den + num, diff * 10 ** 9 >= -(den + num)), 'decimal constant: value or sign', 'decimal-value')
    j = len(signs) + len(dchars)
    if form.endswith('.') and follow.startswith('.'):
        return                                       # "1.." : what the second point belongs to is not claimed
    if follow.startswith('.') and '.' not in form and ',' not in form:
        j += 1                                       # "12.x": the point is part of the constant (a fraction without digits)
    exp = _expected_rest(chars, j)
    ok = _same_tokens(rest, exp)
    if follow.startswith(' '):
        ok = api.or_(ok, _same_tokens(rest, exp[1:]))         # whether the blank after a decimal constant is taken is not claimed (a unit or the end of the argument follows)
    e.check(ok, 'readDecimal did not consume exactly the literal', 'decimal-consumed')


def h_dimglue(e, stretch, shrink, follow):
    """<optional signs><internal dimen> [plus ..] [minus ..]: a dimen register is only the natural size of a glue"""
    doc = _doc()
    doc.context.newdimen('da')
    dv = e.real('da')
    e.assume(api.and_(dv <= 2 ** 30, dv >= -2 ** 30))
    if e.symbolic:
        from sxv.core import RealProxy
        doc.context['da'].value = RealProxy(plasTeX.dimen, dv)
    else:
        doc.context['da'].value = plasTeX.dimen(dv)
    s = e.char('s', 32, 45)
    e.assume(e.one_of(s, '+- '))
    chars = [s] + list('\\da')
    exp = {}
    for kw, kind, pfx in (('plus', stretch, 'p'), ('minus', shrink, 'm')):
        if kind:
            c, n, d = _decimal(e, 'D', pfx)
            chars.extend(list(' ' + kw + ' ') + c + list(kind))
            exp['stretch' if kw == 'plus' else 'shrink'] = (n, d, FILS.get(kind, 0))
    chars += list(follow) + ['|']
    tex = TeX(doc)
    tex.input(Src(chars))
    lvl = plasTeX.ParameterCommand._enablelevel
    try:
        g = tex.readGlue()
        rest = _rest(tex)
    except (ValueError, TypeError, IndexError, AttributeError) as ex:
        e.fail_exception(ex)
        return
    e.check(plasTeX.ParameterCommand._enablelevel == lvl, 'parameter-enable level not restored by readGlue', 'enable-level')
    e.nontriv()
    sign = -1 if eq(s, '-') else 1
    e.check(g == sign * dv, 'glue from an internal dimen: natural size / sign', 'glue-value:dimen-register')
    for key in ('stretch', 'shrink'):
        got = getattr(g, key, None)
        if key not in exp:
            e.check(got is None, 'glue %s present though not written' % key, 'glue-%s:dimen-register' % key)
            continue
        n, d, order = exp[key]
        ok = got is not None
        if ok:
            dd = got * d - (n + order * 10 ** 9 * d) if order else got * d - n * 65536
            ok = api.and_(dd <= 12 * d, dd >= -12 * d)
        e.check(ok, 'the %s part written after an internal dimen is lost (left in the stream)' % key, 'glue-%s:dimen-register' % key)
    suffix = list(follow.lstrip(' ')) + ['|'] if not exp else None
    if suffix is not None:
        e.check(_same_tokens(rest, _tokens_of(suffix)), 'register read consumed more than the register', 'glue-consumed:dimen-register')
    else:
        consumed = len(chars) - len(follow) - 1 + (1 if follow.startswith(' ') else 0)
        e.check(_same_tokens(rest, _tokens_of(chars[consumed:])), 'readGlue did not consume exactly the glue specification', 'glue-consumed:dimen-register')


def h_gluereg(e, kind, stretch, shrink, follow):
    """<optional signs><internal glue>: all three components of the register, with the sign applied to each"""
    doc = _doc()
    cls = plasTeX.glue if kind == 'glue' else plasTeX.muglue
    (doc.context.newskip if kind == 'glue' else doc.context.newmuskip)('ga')
    comp = {None: None, 'pt': 2 * 65536.0, 'fil': 2e9 + 3.0, 'filll': 6e9 + 1.0}
    dv = e.real('ga')
    e.assume(api.and_(dv <= 2 ** 30, dv >= -2 ** 30))
    if e.symbolic:
        from sxv.core import RealProxy
        val = RealProxy(cls, dv)
        val.stretch = None if comp[stretch] is None else plasTeX.dimen(comp[stretch])
        val.shrink = None if comp[shrink] is None else plasTeX.dimen(comp[shrink])
    else:
        val = cls(dv, plus=comp[stretch], minus=comp[shrink])
    doc.context['ga'].value = val
    s = [e.char('s%d' % i, 32, 45) for i in range(2)]
    for c in s:
        e.assume(e.one_of(c, '+- '))
    chars = s + list('\\ga') + list(follow) + ['|']
    tex = TeX(doc)
    tex.input(Src(chars))
    lvl = plasTeX.ParameterCommand._enablelevel
    try:
        g = tex.readGlue() if kind == 'glue' else tex.readMuGlue()
        rest = _rest(tex)
    except (ValueError, TypeError, IndexError, AttributeError) as ex:
        e.fail_exception(ex)
        return
    e.check(plasTeX.ParameterCommand._enablelevel == lvl, 'parameter-enable level not restored by reading an internal %s: later register assignments are skipped' % kind, 'enable-level')
    _probe_untouched(e, follow, 'register')
    sign, k = _signs(e, chars)
    e.nontriv()
    e.check(g == sign * dv, 'internal %s: natural size / sign' % kind, 'glue-value:register')
    for key, want in (('stretch', comp[stretch]), ('shrink', comp[shrink])):
        got = getattr(g, key, None)
        if want is None:
            e.check(got is None, 'internal %s: %s present though the register has none' % (kind, key), 'glue-%s:register' % key)
        else:
            e.check(got is not None and got == sign * want, 'internal %s: %s component lost or wrong (TeX copies / negates every component)' % (kind, key), 'glue-%s:register' % key)
    suffix = list(follow.lstrip(' ')) + ['|']
    e.check(_same_tokens(rest, _tokens_of(suffix)), 'register read consumed more than the register', 'glue-consumed:register')


FILS = {'fil': 2, 'fill': 4, 'filll': 6}


def h_glue(e, stretch, shrink, follow):
    """<dimen> [plus <dimen|fil>] [minus <dimen|fil>]"""
    doc = _doc()
    dchars, num, den = _decimal(e, 'D.D', 'd')
    chars = list(dchars) + list('pt')
    exp = {}

    def comp(kw, kind, pfx):
        c, n, d = _decimal(e, 'D', pfx)
        chars.extend(list(' ' + kw + ' ') + c)
        if kind in FILS:
            chars.extend(list(kind))
            return (n, d, FILS[kind])
        chars.extend(list(kind))
        return (n * UNITS[kind].numerator, d * UNITS[kind].denominator, 0)
    if stretch:
        exp['stretch'] = comp('plus', stretch, 'p')
    if shrink:
        exp['shrink'] = comp('minus', shrink, 'm')
    chars += list(follow) + ['|']
    tex = TeX(doc)
    tex.input(Src(chars))
    lvl = plasTeX.ParameterCommand._enablelevel
    try:
        g = tex.readGlue()
        rest = _rest(tex)
    except (ValueError, TypeError, IndexError, AttributeError) as ex:
        e.fail_exception(ex)
        return
    e.check(plasTeX.ParameterCommand._enablelevel == lvl, 'parameter-enable level not restored by readGlue', 'enable-level')
    _probe_untouched(e, follow, 'glue')
    e.nontriv()
    d0 = g * den - num * 65536
    e.check(api.and_(d0 <= 2 * den, d0 >= -2 * den), 'glue natural size', 'glue-value')
    for key in ('stretch', 'shrink'):
        got = getattr(g, key)
        if key not in exp:
            e.check(got is None, 'glue %s present though not written' % key, 'glue-' + key)
            continue
        e.check(got is not None, 'glue %s lost' % key, 'glue-' + key)
        if got is None:
            return
        n, d, order = exp[key]
        if order:
            dd = got * d - (n + order * 10 ** 9 * d)
        else:
            dd = got * d - n * 65536
        e.check(api.and_(dd <= 12 * d, dd >= -12 * d), 'glue %s value/order' % key, 'glue-' + key)
    consumed = len(chars) - len(follow) - 1
    if follow.startswith(' '):
        consumed += 1
    e.check(_same_tokens(rest, _tokens_of(chars[consumed:])), 'readGlue did not consume exactly the glue specification', 'glue-consumed')


# ---------------------------------------------------------------------------------------------- (B) signatures
ARGKINDS = ['*', '[o]', '(o)', '<o>', 'm']
TYPES = [None, 'str', 'int', 'dimen', 'list', 'dict', 'float', 'nox']
_MACROS = {}


def _macro(sig):
    if sig not in _MACROS:
        _MACROS[sig] = type('mac', (Command,), {'args': sig})
    return _MACROS[sig]


def _sigs(nargs):
    """signature shapes: list of (kind, type)"""
    out = []
    for kinds in itertools.product(ARGKINDS, repeat=nargs):
        if kinds.count('*') > 1 or ('*' in kinds and kinds[0] != '*'):
            continue
        if 'm' not in kinds and nargs > 1:
            continue
        out.append(kinds)
    return out


def _match(chars, start, open_, close_):
    """reference matcher for a bracketed group starting at chars[start] == open_: returns (content, index after close) or None;
    for [ ] ( ) < > delimiters a brace group inside the argument protects whatever it contains"""
    level = 0
    brace = 0
    k = start
    content = []
    braces_protect = not eq(open_, '{')
    while k < len(chars):
        c = chars[k]
        if braces_protect and eq(c, '{'):
            brace += 1
            content.append(c)
        elif braces_protect and eq(c, '}'):
            brace -= 1
            if brace < 0:
                return None
            content.append(c)
        elif brace == 0 and eq(c, open_):
            level += 1
            if level > 1:
                content.append(c)
        elif brace == 0 and eq(c, close_):
            level -= 1
            if level == 0:
                return content, k + 1
            content.append(c)
        else:
            content.append(c)
        k += 1
    return None


def h_sig(e, kinds, types, present, ncontent):
    """one signature x one invocation shape; content characters symbolic over a small alphabet that contains the delimiters"""
    doc = TeXDocument()
    parts = []
    names = []
    for i, (k, t) in enumerate(zip(kinds, types)):
        nm = 'a%d' % i
        tt = '' if t is None else ':' + t
        if k == '*':
            parts.append('*')
            names.append('*modifier*')
        elif k == 'm':
            parts.append(nm + tt)
            names.append(nm)
        else:
            parts.append('%s %s%s %s' % (k[0], nm, tt, k[2]))
            names.append(nm)
    sig = ' '.join(parts)
    mac = _macro(sig)
    vars(mac).get('@arguments')
    doc.context.addGlobal('mac', mac)
    chars = list('\\mac ')
    expect = []
    for i, (k, t, pres) in enumerate(zip(kinds, types, present)):
        if k == '*':
            if pres:
                chars.append('*')
            expect.append(('*modifier*', 'star', pres, None, None))
            continue
        op, cl = ('{', '}') if k == 'm' else (k[0], k[2])
        if k != 'm' and not pres:
            expect.append((names[i], t, False, None, None))
            continue
        start = len(chars)
        chars.append(op)
        content = []
        if t in ('int',):
            content = [e.char('v%d_%d' % (i, j), 48, 57) for j in range(min(2, ncontent))]
        elif t == 'dimen':
            content = [e.char('v%d_0' % i, 48, 57)] + list('pt')
        elif t == 'float':
            sg = e.char('v%d_s' % i, 43, 45)
            e.assume(e.one_of(sg, '+-'))
            content = [sg, e.char('v%d_0' % i, 48, 57), '.', e.char('v%d_1' % i, 48, 57)]
        elif t == 'list':
            for j in range(ncontent):
                c = e.char('v%d_%d' % (i, j), 44, 122)
                e.assume(e.one_of(c, 'ab,'))
                content.append(c)
        elif t == 'dict':
            content = list('k=') + [e.char('v%d_0' % i, 97, 99)] + list(',j=') + [e.char('v%d_1' % i, 97, 99)]
        else:
            for j in range(ncontent):
                c = e.char('v%d_%d' % (i, j), 32, 125)
                e.assume(e.one_of(c, 'ab ' + (op + cl if k != 'm' else ('{}' if t is None else '[]'))))
                content.append(c)
        chars.extend(content)
        chars.append(cl)
        expect.append((names[i], t, True, start, content))
    chars += list('Z|')
    tex = TeX(doc)
    tex.input(Src(chars))
    lvl = plasTeX.ParameterCommand._enablelevel
    exc = None
    try:
        tok = next(iter(tex))
        a = tok.attributes
        rest = _rest(tex)
    except (ValueError, TypeError, IndexError, AttributeError, KeyError) as ex:
        exc = ex
    # ---- oracle: reference binder walking the invocation characters
    pos = 5
    bound = []
    for (k, t) in zip(kinds, types):
        while pos < len(chars) and eq(chars[pos], ' '):
            pos += 1
        if k == '*':
            if eq(chars[pos], '*'):
                bound.append(('star', True, None))
                pos += 1
            else:
                bound.append(('star', False, None))
            continue
        if k != 'm':
            if not eq(chars[pos], k[0]):
                bound.append((t, False, None))
                continue
            m = _match(chars, pos, k[0], k[2])
        elif eq(chars[pos], '{'):
            m = _match(chars, pos, '{', '}')
        else:
            if eq(chars[pos], '}') or eq(chars[pos], '|'):
                e.tag('nonconforming')
                return
            m = ([chars[pos]], pos + 1)
        if m is None:
            e.tag('unbalanced')
            return
        body, pos = m
        # type-conformance of the written value
        if t == 'int':
            if not body or not api.all_([api.and_(ord_(c) >= 48, ord_(c) <= 57) for c in body]):
                e.tag('nonconforming')
                return
        elif t == 'dimen':
            if len(body) != 3 or not (api.and_(ord_(body[0]) >= 48, ord_(body[0]) <= 57) and eq(body[1], 'p') and eq(body[2], 't')):
                e.tag('nonconforming')
                return
        elif t == 'float':
            if len(body) != 4 or not (e.one_of(body[0], '+-') and api.and_(ord_(body[1]) >= 48, ord_(body[1]) <= 57) and eq(body[2], '.') and api.and_(ord_(body[3]) >= 48, ord_(body[3]) <= 57)):
                e.tag('nonconforming')
                return
        elif t == 'dict':
            if len(body) != 7 or not (eq(body[0], 'k') and eq(body[1], '=') and eq(body[3], ',') and eq(body[4], 'j') and eq(body[5], '=')) \
                    or not (e.one_of(body[2], 'abc') and e.one_of(body[6], 'abc')):
                e.tag('nonconforming')
                return
        elif t == 'list':
            if not api.all_([e.one_of(c, 'ab,') for c in body]):
                e.tag('nonconforming')
                return
        elif t == 'str':
            if not api.all_([e.none_of(c, '{}|') for c in body]):
                e.tag('nonconforming')
                return
        bound.append((t, True, body))
    if exc is not None:
        e.fail_exception(exc)
        return
    e.check(plasTeX.ParameterCommand._enablelevel == lvl, 'parameter-enable level not restored by argument parsing', 'enable-level')
    for nm, (t, pres, body) in zip(names, bound):
        got = a.get(nm)
        if t == 'star':
            if pres:
                e.check(got is not None and eq(api.text_of(got), '*'), 'star modifier not bound', 'bind-star')
            else:
                e.check(got is None, 'absent star modifier bound to %r' % (got,), 'bind-star')
            continue
        if not pres:
            e.check(got is None, 'absent optional argument %s bound to %r' % (nm, got), 'bind-absent')
            continue
        if t == 'float':
            val = (ord_(body[1]) - 48) * 10 + (ord_(body[3]) - 48)
            if eq(body[0], '-'):
                val = -val
            d = got * 10 - val if got is not None else None
            e.check(got is not None and api.and_(d * 10 ** 6 <= 1, d * 10 ** 6 >= -1), 'float argument %s: value or sign' % nm, 'bind-float')
            continue
        if t is None or t == 'str' or t == 'nox':
            txt = api.cat(body)
            if t == 'str':
                want = txt.strip()
                e.check(got is not None and eq(_textof(got), want), 'string argument %s' % nm, 'bind-str')
            else:
                e.check(got is not None and eq(_squeeze(_textof(got)), _squeeze(txt)), 'argument %s content' % nm, 'bind-content')
        elif t == 'int':
            val = 0
            for c in body:
                val = val * 10 + (ord_(c) - 48)
            e.check(got is not None and got == val, 'integer argument %s' % nm, 'bind-int')
        elif t == 'dimen':
            val = (ord_(body[0]) - 48) * 65536
            e.check(got is not None and api.and_(got - val <= 1, got - val >= -1), 'dimension argument %s' % nm, 'bind-dimen')
        elif t == 'list':
            items = [[]]
            for c in body:
                if eq(c, ','):
                    items.append([])
                else:
                    items[-1].append(c)
            e.check(got is not None and len(got) == len(items), 'list argument %s: %d items expected' % (nm, len(items)), 'bind-list')
            if got is None or len(got) != len(items):
                return
            for g, it in zip(got, items):
                e.check(eq(_textof(g), api.cat(it)), 'list item', 'bind-list')
        elif t == 'dict':
            e.check(got is not None and sorted(got.keys()) == ['j', 'k'], 'dictionary keys %r' % (got if got is None else list(got.keys()),), 'bind-dict')
            if got is None or sorted(got.keys()) != ['j', 'k']:
                return
            e.check(eq(_textof(got['k']), body[2]), 'dictionary value k', 'bind-dict')
            e.check(eq(_textof(got['j']), body[6]), 'dictionary value j', 'bind-dict')
    e.nontriv()
    e.check(_same_tokens(rest, _expected_rest(chars, pos)), 'what follows the invocation is affected: invocation not consumed exactly', 'invocation-consumed')


def h_direct(e, typ, follow):
    """argument types read straight off the token stream (no delimiters): <Type> then a mandatory argument"""
    doc = TeXDocument()
    mac = _macro('a0:%s a1' % typ)
    doc.context.addGlobal('mac', mac)
    y = e.char('y', 97, 122)
    if typ == 'Number':
        ds = [e.char('d%d' % i, 48, 57) for i in range(2)]
        sg = e.char('s', 32, 45)
        e.assume(e.one_of(sg, '+- '))
        lit = [sg] + ds
        want = ((ord_(ds[0]) - 48) * 10 + (ord_(ds[1]) - 48)) * (-1 if eq(sg, '-') else 1)
    elif typ == 'Dimen':
        dchars, num, den = _decimal(e, 'D.D', 'd')
        lit = dchars + list('pt')
    elif typ == 'Glue':
        dchars, num, den = _decimal(e, 'D', 'd')
        pchars, pnum, pden = _decimal(e, 'D', 'p')
        lit = dchars + list('pt plus ') + pchars + list('fil')
    elif typ == 'Tok':
        c = e.char('t', 33, 122)
        e.assume(api.or_(e.between(c, 97, 122), e.one_of(c, '!1')))
        lit = [c]
    elif typ == 'XTok':
        c1, c2 = e.char('t1', 97, 122), e.char('t2', 97, 122)
        lit = ['{', c1, c2, '}']                    # a braced group of several tokens
    elif typ == 'cs':
        c = e.char('t', 97, 122)
        lit = ['\\', 'q', c]
    chars = list('\\mac ') + lit + list(follow) + ['{', y, '}', 'Z', '|']
    tex = TeX(doc)
    tex.input(Src(chars))
    lvl = plasTeX.ParameterCommand._enablelevel
    try:
        tok = next(iter(tex))
        a = tok.attributes
        rest = _rest(tex)
    except (ValueError, TypeError, IndexError, AttributeError, KeyError) as ex:
        e.fail_exception(ex)
        return
    e.check(plasTeX.ParameterCommand._enablelevel == lvl, 'parameter-enable level not restored by argument parsing', 'enable-level')
    got = a.get('a0')
    e.nontriv()
    if typ == 'Number':
        e.check(got is not None and got == want, 'Number argument', 'bind-int')
    elif typ == 'Dimen':
        d = got * den - num * 65536 if got is not None else None
        e.check(got is not None and api.and_(d <= 2 * den, d >= -2 * den), 'Dimen argument', 'bind-dimen')
    elif typ == 'Glue':
        d = got - num * 65536 if got is not None else None
        e.check(got is not None and api.and_(d <= 2, d >= -2), 'Glue argument: natural size', 'bind-glue')
        st = getattr(got, 'stretch', None)
        e.check(st is not None and api.and_(st - (pnum + 2 * 10 ** 9) <= 1, st - (pnum + 2 * 10 ** 9) >= -1), 'Glue argument: stretch', 'bind-glue')
        e.check(getattr(got, 'shrink', None) is None, 'Glue argument: shrink', 'bind-glue')
    elif typ == 'Tok':
        e.check(got is not None and eq(api.text_of(got), lit[0]), 'Tok argument is the next token', 'bind-tok')
    elif typ == 'XTok':
        e.check(got is not None and eq(_squeeze(_textof(got)), api.cat([lit[1], lit[2]])), 'XTok argument holding a group of two tokens', 'bind-tok')
    elif typ == 'cs':
        e.check(got is not None and eq(api.text_of(got), api.cat(['q', lit[2]])), 'cs argument is the name of the control sequence', 'bind-cs')
    a1 = a.get('a1')
    sfx = ':after-stream-type' if typ in ('Number', 'Dimen', 'Glue') else ''
    e.check(a1 is not None and eq(_squeeze(_textof(a1)), y), 'the mandatory argument after a %s argument' % typ, 'bind-content' + sfx)
    e.check(_same_tokens(rest, _tokens_of(['Z', '|'])), 'what follows the invocation is affected', 'invocation-consumed' + sfx)


def h_nest(e, kind, n, braces=False):
    """one bracketed argument whose n content characters range over {open, close, a}: every nesting pattern of that length"""
    doc = TeXDocument()
    op, cl = ('{', '}') if kind == 'm' else (kind[0], kind[2])
    sig = 'a0' if kind == 'm' else '%s a0 %s' % (op, cl)
    mac = _macro(sig)
    doc.context.addGlobal('mac', mac)
    content = []
    for j in range(n):
        c = e.char('v%d' % j, 40, 125)
        e.assume(e.one_of(c, 'a' + op + cl + ('{}' if kind != 'm' and braces else '')))
        content.append(c)
    chars = list('\\mac ') + [op] + content + [cl] + list('Z|')
    tex = TeX(doc)
    tex.input(Src(chars))
    exc = None
    try:
        tok = next(iter(tex))
        a = tok.attributes
        rest = _rest(tex)
    except (ValueError, TypeError, IndexError, AttributeError, KeyError) as ex:
        exc = ex
    m = _match(chars, 5, op, cl)
    if m is None:
        e.tag('unbalanced')
        return
    body, pos = m
    if exc is not None:
        e.fail_exception(exc)
        return
    got = a.get('a0')
    e.nontriv()
    e.check(got is not None and eq(_squeeze(_textof(got)), _squeeze(api.cat(body))), 'nested %s%s argument content' % (op, cl), 'bind-content:nested')
    e.check(_same_tokens(rest, _expected_rest(chars, pos)), 'nested %s%s argument: invocation not consumed exactly' % (op, cl), 'invocation-consumed:nested')


def h_cast(e, typ, n):
    """TeX.readArgument(type=list/dict) called directly on a braced group whose content characters range over {a , { }}"""
    doc = TeXDocument()
    content = []
    for j in range(n):
        c = e.char('v%d' % j, 44, 125)
        e.assume(e.one_of(c, 'a,{}'))
        content.append(c)
    pre = list('k=') if typ == 'dict' else []
    post = list(',j=b') if typ == 'dict' else list(',b')
    chars = ['{'] + pre + content + post + ['}'] + list('Z|')
    tex = TeX(doc)
    tex.input(Src(chars))
    exc = None
    try:
        got = tex.readArgument(type=typ)
        rest = _rest(tex)
    except (ValueError, TypeError, IndexError, AttributeError, KeyError) as ex:
        exc = ex
    m = _match(chars, 0, '{', '}')
    if m is None or m[1] != len(chars) - 2:
        e.tag('unbalanced')
        return
    body = m[0]
    # inner braces must be balanced as well
    lvl = 0
    for c in body:
        if eq(c, '{'):
            lvl += 1
        elif eq(c, '}'):
            lvl -= 1
            if lvl < 0:
                e.tag('unbalanced')
                return
    if lvl != 0:
        e.tag('unbalanced')
        return
    # reference: split at top-level commas; dict items split at the (only) top-level '='
    items = [[]]
    lvl = 0
    for c in body:
        if eq(c, '{'):
            lvl += 1
        elif eq(c, '}'):
            lvl -= 1
        if lvl == 0 and eq(c, ','):
            items.append([])
        else:
            items[-1].append(c)
    if typ == 'dict':
        for it in items:
            if not it or not ((len(it) >= 2 and eq(it[1], '=')) or api.all_([eq(c, 'a') for c in it])):
                e.tag('nonconforming')               # empty item, or a key-only item containing a brace group
                return
    if exc is not None:
        e.fail_exception(exc)
        return
    e.nontriv()
    if typ == 'list':
        e.check(len(got) == len(items), 'list cast: %d items, %d expected' % (len(got), len(items)), 'cast-list')
        if len(got) != len(items):
            return
        for g, it in zip(got, items):
            e.check(eq(_squeeze(_textof(g)), _squeeze(api.cat(it))), 'list cast: item text', 'cast-list')
    else:
        exp = []
        for it in items:
            if len(it) >= 2 and eq(it[1], '='):
                exp.append((api.cat([it[0]]), api.cat(it[2:])))
            else:
                if not api.all_([eq(c, 'a') for c in it]):
                    e.tag('nonconforming')           # a key-only item containing a brace group
                    return
                if not it:
                    continue
                exp.append((api.cat(it), True))
        # later duplicates of a key overwrite earlier ones
        final = []
        for k, v in exp:
            final = [(k2, v2) for (k2, v2) in final if not eq(k2, k)] + [(k, v)]
        gkeys = list(got.keys())
        e.check(len(gkeys) == len(final), 'dictionary cast: %d keys, %d expected' % (len(gkeys), len(final)), 'cast-dict')
        if len(gkeys) != len(final):
            return
        for k, v in final:
            hit = [g for g in gkeys if eq(g, k)]
            e.check(len(hit) == 1, 'dictionary cast: key missing', 'cast-dict')
            if len(hit) != 1:
                return
            gv = got[hit[0]]
            if v is True:
                e.check(gv is True, 'dictionary cast: flag key', 'cast-dict')
            else:
                e.check(gv is not True and eq(_squeeze(_textof(gv)), _squeeze(v)), 'dictionary cast: value', 'cast-dict')
    e.check(_same_tokens(rest, _expected_rest(chars, len(chars) - 2)), 'cast argument not consumed exactly', 'invocation-consumed:cast')


def _textof(x):
    if hasattr(x, 'textContent') and not isinstance(x, str) and not api.is_sym(x):
        return x.textContent
    if isinstance(x, list):
        return api.cat([_textof(y) for y in x])
    return api.text_of(x)


def _squeeze(s):
    """text without blanks and braces (blank runs are collapsed by the lexer, inner groups keep only their text)"""
    return api.cat([c for c in api.chars(s) if not (eq(c, ' ') or eq(c, '{') or eq(c, '}'))])


def jobs(tier, seed):
    J = []
    q = tier == 'quick'
    for radix in (10, 8, 16):
        for ns in ((0, 1, 2) if q else (0, 1, 2, 3)):
            for nd in ((1, 2, 3) if q else (1, 2, 3, 4)):
                fl = FOLLOW if (nd <= 2 or not q) else FOLLOW[:3]
                for f in fl:
                    if not q and nd == 4 and ns == 3:
                        continue
                    J.append(dict(harness='h_int', params=dict(radix=radix, nsigns=ns, ndig=nd, follow=f),
                                  label='int r%d s%d d%d %r' % (radix, ns, nd, f)))
    for f in FOLLOW:
        J.append(dict(harness='h_charcode', params=dict(follow=f), label='charcode %r' % f))
    for f in FOLLOW_CS:
        J.append(dict(harness='h_intreg', params=dict(follow=f), label='intreg %r' % f))
        for mult in (False, True):
            J.append(dict(harness='h_dimreg', params=dict(follow=f, mult=mult), label='dimreg %r %s' % (f, mult)))
    for f in FOLLOW_CS:
        for kind in ('glue', 'muglue'):
            for st, sh in ((None, None), ('pt', 'fil'), ('filll', None), (None, 'pt')):
                if q and f not in FOLLOW_CS[:3] and (st, sh) != ('pt', 'fil'):
                    continue
                J.append(dict(harness='h_gluereg', params=dict(kind=kind, stretch=st, shrink=sh, follow=f), label='%sreg %s %s %r' % (kind, st, sh, f), no_twin=True))
    for st, sh in ((None, None), ('pt', None), ('fil', 'pt'), (None, 'fill')):
        for f in (FOLLOW_CS[:3] if (st, sh) == (None, None) else FOLLOW[:3]):
            J.append(dict(harness='h_dimglue', params=dict(stretch=st, shrink=sh, follow=f), label='glue from dimen register %s %s %r' % (st, sh, f), no_twin=True))
    forms = DEC_FORMS[:5] if q else DEC_FORMS
    for form in forms:
        for ns in ((0, 1, 2) if q else (0, 1, 2, 3)):
            for f in (FOLLOW[:4] if q else FOLLOW):
                J.append(dict(harness='h_decimal', params=dict(form=form, nsigns=ns, follow=f), label='decimal %s s%d %r' % (form, ns, f), no_twin=ns != 1))
    for form in forms:
        for tk in ('none', 'true', 'sp-true', 'TRUE', 'space'):
            for f in (FOLLOW[:4] if q else FOLLOW):
                if q and tk in ('TRUE', 'sp-true') and form != 'D.D':
                    continue
                J.append(dict(harness='h_dimen', params=dict(form=form, true_kw=tk, follow=f, nsigns=1 if q else 2),
                              label='dimen %s %s %r' % (form, tk, f)))
    if q:
        # the side-effect follower for the scanners whose quick follower lists are cut short
        pf = FOLLOW[-2]
        for form in ('D.D', '.D', 'D.'):
            J.append(dict(harness='h_dimen', params=dict(form=form, true_kw='none', follow=pf, nsigns=1), label='dimen %s none %r' % (form, pf), no_twin=True))
            J.append(dict(harness='h_decimal', params=dict(form=form, nsigns=1, follow=pf), label='decimal %s s1 %r' % (form, pf), no_twin=True))
        for st, sh in ((None, None), ('pt', None), ('fil', 'pt'), (None, 'filll')):
            J.append(dict(harness='h_glue', params=dict(stretch=st, shrink=sh, follow=pf), label='glue %s %s %r' % (st, sh, pf), no_twin=True))
    comps = [None, 'pt', 'fil', 'fill', 'filll'] + ([] if q else ['mm', 'em'])
    for st in comps:
        for sh in comps:
            for f in (FOLLOW[:3] if q else FOLLOW):
                J.append(dict(harness='h_glue', params=dict(stretch=st, shrink=sh, follow=f), label='glue %s %s %r' % (st, sh, f)))
    # signatures
    maxargs = 2 if q else 3
    for n in range(1, maxargs + 1):
        for kinds in _sigs(n):
            tsets = []
            for k in kinds:
                tsets.append([None] if k == '*' else (TYPES if n <= 2 else [None, 'int']))
            for types in itertools.product(*tsets):
                if n >= 2 and q and sum(1 for t in types if t not in (None, 'str')) > 1:
                    continue
                pres_opts = [([True, False] if k != 'm' else [True]) for k in kinds]
                for present in itertools.product(*pres_opts):
                    # an absent optional argument directly followed by a present one with the same delimiters cannot be written:
                    # the brackets would be read as the first of the two
                    if any(kinds[i] == kinds[i + 1] and kinds[i] != 'm' and not present[i] and present[i + 1] for i in range(len(kinds) - 1)):
                        continue
                    J.append(dict(harness='h_sig', params=dict(kinds=list(kinds), types=list(types), present=list(present), ncontent=2 if (q or n == 3) else 3),
                                  label='sig %s %s %s' % (' '.join(kinds), types, present), no_twin=True))
    for typ in ('Number', 'Dimen', 'Glue', 'Tok', 'XTok', 'cs'):
        for f in (('', ' ') if typ not in ('Tok', 'XTok') else ('',)):
            J.append(dict(harness='h_direct', params=dict(typ=typ, follow=f), label='direct type %s %r' % (typ, f), no_twin=True))
    for kind in ('[o]', 'm', '(o)'):
        J.append(dict(harness='h_nest', params=dict(kind=kind, n=5 if q else 6), label='nesting %s' % kind, split=4, no_twin=True))
    for kind in ('[o]', '<o>'):
        J.append(dict(harness='h_nest', params=dict(kind=kind, n=4 if q else 5, braces=True), label='nesting %s with brace groups' % kind, split=4, no_twin=True))
    for typ in ('dict', 'list'):
        J.append(dict(harness='h_cast', params=dict(typ=typ, n=5 if q else 6), label='direct cast %s' % typ, split=4, no_twin=True))
    return J
