"""C09  Every reference resolves to the object its label names, wherever the label is.

LaTeX source skeletons (numbered objects, \\label, \\ref, \\pageref in every order) are parsed by the real code; the label
texts are symbolic characters over {blank, a, b}, so stripping, equality between a reference and any label, and dangling
references are decided by the solver.  Real code: Context.label/ref, TeX.castLabel/castRef/castString/normalize,
Macro.refstepcounter/id/idref, Crossref.label/ref."""
import itertools
from sxv import api
from sxv.api import Src, eq
from sxv.props import common

from plasTeX import TeXDocument
from plasTeX.TeX import TeX

PROP = 'C09'
LEVEL = 'model_checking'
FUNCTIONS = ['plasTeX.Context:Context.label', 'plasTeX.Context:Context.ref', 'plasTeX.TeX:TeX.castLabel', 'plasTeX.TeX:TeX.castRef', 'plasTeX.TeX:TeX.castString',
             'plasTeX.TeX:TeX.normalize', 'plasTeX:Macro.refstepcounter', 'plasTeX:Macro.id', 'plasTeX:Macro.idref', 'plasTeX.Base.LaTeX.Crossref:label', 'plasTeX.Base.LaTeX.Crossref:ref']
RULE = ('one evaluation = one path = one history of objects/labels/references x one class of label texts (which are blank, which coincide after stripping); '
        'non-trivial = the history contains a label and a reference')
BOUNDS = {
    'quick': 'all histories of length <= 3 and every 8th block of 12 of the 984 histories of length 4 (block offset from VERIF_SEED), plus 6 long histories, over {numbered object (section / equation), label L0, label L1, ref to L0, L1 or to a third text L2, pageref} with each label defined at most once, '
             'label texts of 2 symbolic characters over {blank, a, b}',
    'thorough': 'all histories of length <= 4, every 12th block of length 5; selected histories of length 6-7 (3 references pending on one label, label inside/after the object); label texts of 3 characters',
}
ASSUMPTIONS = ['each label text is defined at most once per document (DESIGN.md section 3, C09): labels L0 and L1 differ after stripping; references are free to coincide with any label or none',
               '"resolves to no object" = the idref entry is absent or a placeholder that is not a node of the document']
OUTSIDE = ['bibliography keys (\\bibitem/\\cite)', 'symbolic label texts on floats/theorems/items (those use concrete names with every before/after placement of the references)']
BUDGET_S = {'quick': 900, 'thorough': 3300}

ITEMS = ['O', 'E', 'L0', 'L1', 'R0', 'R1', 'R2', 'P0']
# T0/T1: a section whose title contains the label and which is followed by nothing (the labelled node has no children yet)


def histories(n):
    out = []
    for k in range(2, n + 1):
        for h in itertools.product(ITEMS, repeat=k):
            if h.count('L0') > 1 or h.count('L1') > 1:
                continue
            if not any(x[0] == 'L' for x in h) or not any(x[0] in 'RP' for x in h):
                continue
            if 'L1' in h and 'L0' not in h:
                continue
            if 'E' in h and 'O' not in h:
                continue
            out.append(h)
    return out


_CACHE = {}


def hist(n):
    if n not in _CACHE:
        _CACHE[n] = histories(n)
    return _CACHE[n]


SPECIAL = [('R0', 'R0', 'R0', 'O', 'L0', 'R0'), ('O', 'R0', 'O', 'R0', 'L0', 'O', 'R0'), ('R0', 'R1', 'O', 'L1', 'O', 'L0', 'R1'),
           ('O', 'L0', 'O', 'L1', 'R0', 'R1', 'R2'), ('R2', 'O', 'L0', 'R2', 'E', 'L1', 'R2'), ('P0', 'R0', 'O', 'E', 'L0', 'P0'),
           ('T0', 'R0'), ('T0', 'R0', 'O', 'R0'), ('R0', 'T0', 'R0', 'R2'), ('T0', 'T1', 'R0', 'R1'), ('O', 'T1', 'R1', 'L0', 'R0'), ('T0', 'P0', 'E', 'L1', 'R1', 'R0')]


def reset():
    common.reset_parser_state()


def _strip(s):
    return s.strip() if not isinstance(s, str) else s.strip()


def h_refs(e, fam, lo, hi, nch=2):
    H = (SPECIAL if fam == 'special' else hist(fam))[lo:hi]
    h = H[e.choice(len(H), 'history')]
    doc = TeXDocument()
    L = []
    for v in range(3):
        cs = []
        for i in range(nch):
            c = e.char('l%d_%d' % (v, i), 32, 98)
            e.assume(e.one_of(c, ' ab'))
            cs.append(c)
        L.append(api.cat(cs))
    S = [_strip(x) for x in L]
    if ('L1' in h or 'T1' in h) and ('L0' in h or 'T0' in h):
        e.assume(api.not_(eq(S[0], S[1])))          # each label defined once
    src = ['\\documentclass{article}\\begin{document}']
    for it in h:
        if it == 'O':
            src.append('\\section{T}x ')
        elif it[0] == 'T':
            src += ['\\section{T\\label{', L[int(it[1])], '}}']
        elif it == 'E':
            src.append('\\begin{equation}y\\end{equation}')
        elif it[0] == 'L':
            src += ['\\label{', L[int(it[1])], '}']
        elif it[0] == 'R':
            src += ['\\ref{', L[int(it[1])], '}']
        else:
            src += ['\\pageref{', L[int(it[1])], '}']
    src.append('\\end{document}')
    chars = []
    for p in src:
        chars.extend(api.chars(p))
    tex = TeX(doc)
    tex.input(Src(chars))
    try:
        out = tex.parse()
    except (KeyError, ValueError, TypeError, IndexError, AttributeError) as ex:
        e.fail_exception(ex)
        return
    objs, refs, allnodes = [], [], set()

    def walk(n):
        for c in n.childNodes:
            if getattr(c, 'nodeType', None) == 1:
                allnodes.add(id(c))
                if c.nodeName in ('section', 'equation'):
                    objs.append(c)
                elif c.nodeName in ('ref', 'pageref'):
                    refs.append(c)
                walk(c)
    walk(out)
    nobj = sum(1 for x in h if x in 'OE' or x[0] == 'T')
    nref = sum(1 for x in h if x[0] in 'RP')
    e.check(len(objs) == nobj and len(refs) == nref, 'objects/references found %d/%d, written %d/%d' % (len(objs), len(refs), nobj, nref), 'structure')
    if len(objs) != nobj or len(refs) != nref:
        return
    # ---- oracle: where does each label point
    target = {}            # label variable -> object index or None
    cur = None
    oi = 0
    for it in h:
        if it in 'OE':
            cur = oi
            oi += 1
        elif it[0] == 'T':
            cur = oi
            oi += 1
            v = int(it[1])
            if len(S[v]) > 0:
                target[v] = cur
        elif it[0] == 'L':
            v = int(it[1])
            if len(S[v]) > 0 and cur is not None:
                target[v] = cur
    ri = 0
    labelled_ids = {}
    for it in h:
        if it[0] not in 'RP':
            continue
        v = int(it[1])
        node = refs[ri]
        ri += 1
        got = node.idref.get('label')
        want = None
        if len(S[v]) > 0:
            for lv, obj in target.items():
                if eq(S[lv], S[v]):
                    want = obj
                    break
        if want is None:
            e.check(got is None or id(got) not in allnodes, 'reference to a label that does not exist resolves to a document node (<%s>)' % getattr(got, 'nodeName', got),
                    'dangling-resolved')
        else:
            e.check(got is objs[want], 'reference (%s) does not resolve to the object its label names: got %s, history %s'
                    % (it, 'nothing' if got is None else ('a placeholder' if id(got) not in allnodes else 'object #%d' % [id(o) for o in objs].index(id(got))), ' '.join(h)),
                    'wrong-target')
    for lv, obj in target.items():
        # the labelled object carries (one of) its label(s) as identifier
        mine = [S[x] for x, o in target.items() if o == obj]
        e.check(api.or_(False, _any([eq(objs[obj].id, m) for m in mine])), 'labelled object\'s id is not its label', 'object-id')
    e.check(len(doc.context.refs) == 0 or all(not _defined(k, S, target) for k in list(doc.context.refs.keys())), 'pending references left for a defined label', 'pending-left')
    e.observe([[getattr(r.idref.get('label'), 'nodeName', None), (id(r.idref.get('label')) in allnodes)] for r in refs])
    e.nontriv()


def h_eqn(e):
    """labels in the rows of an eqnarray: each reference lands on a node of the document that carries the row's number"""
    doc = TeXDocument()
    rows = 3
    la, lb = e.choice(rows, 'rowA'), e.choice(rows, 'rowB')
    if la == lb:
        return
    L = []
    for v in range(2):
        cs = []
        for i in range(2):
            c = e.char('l%d_%d' % (v, i), 97, 98)
            cs.append(c)
        L.append(api.cat(cs))
    e.assume(api.not_(eq(L[0], L[1])))
    src = ['\\documentclass{article}\\begin{document}\\begin{equation}z\\end{equation}\\begin{eqnarray}']
    for r in range(rows):
        src.append('a&=&b')
        if r == la:
            src += ['\\label{', L[0], '}']
        if r == lb:
            src += ['\\label{', L[1], '}']
        if r + 1 < rows:
            src.append('\\\\')
    src += ['\\end{eqnarray}\\ref{', L[0], '}\\ref{', L[1], '}\\end{document}']
    chars = []
    for p in src:
        chars.extend(api.chars(p))
    tex = TeX(doc)
    tex.input(Src(chars))
    try:
        out = tex.parse()
    except (KeyError, ValueError, TypeError, IndexError, AttributeError) as ex:
        e.fail_exception(ex)
        return
    refs, allnodes = [], set()

    def walk(n):
        for c in n.childNodes:
            if getattr(c, 'nodeType', None) == 1:
                allnodes.add(id(c))
                if c.nodeName == 'ref':
                    refs.append(c)
                walk(c)
    walk(out)
    e.check(len(refs) == 2, 'references found: %d' % len(refs), 'structure')
    if len(refs) != 2:
        return
    for node, row in zip(refs, (la, lb)):
        got = node.idref.get('label')
        e.check(got is not None and id(got) in allnodes, 'reference to a label in eqnarray row %d does not resolve to a node of the document' % (row + 1), 'wrong-target:eqnarray')
        num = getattr(got, 'ref', None)
        e.check(num is not None and eq(api.text_of(num.textContent), str(row + 2)),
                'reference to a label in eqnarray row %d shows number %r instead of %d' % (row + 1, None if num is None else str(num.textContent), row + 2), 'wrong-number:eqnarray')
    e.nontriv()


OBJ_LABELS = [('s', 'section', '1'), ('i1', 'item', '1'), ('i2', 'item', '2'), ('f^1', 'caption', '1'), ('t_1', 'thmenv', '1'), ('e_1', 'equation', '1'), ('s2', 'subsection', '1.1'),
              ('s3', 'subsubsection', None), ('p1', 'paragraph', None)]          # deeper than the numbering depth: no number, but the label names that unit


def h_objects(e):
    """labels on a section, list items, a figure caption, a theorem, an equation and a subsection; every reference placed before or after its target (symbolic choice)"""
    doc = TeXDocument()
    before = [e.bool('before_%s' % n) for n, _, _ in OBJ_LABELS]
    def ref_of(n):
        # the theorem's label and its reference pass through user macros inside mathematics
        return '$\\myref{%s}$' % n if n == 't_1' else '\\ref{%s}' % n
    pre = ''.join(ref_of(n) for (n, _, _), b in zip(OBJ_LABELS, before) if b)
    post = ''.join(ref_of(n) for (n, _, _), b in zip(OBJ_LABELS, before) if not b)
    src = ('\\documentclass{article}\\newtheorem{thm}{Theorem}\\newcommand{\\lab}[1]{\\label{#1}}\\newcommand{\\myref}[1]{\\ref{#1}}\\begin{document}' + pre +
           '\\section{A}\\label{s}x\\begin{enumerate}\\item a\\label{i1}\\item b\\label{i2}\\end{enumerate}'
           '\\begin{figure}\\caption{C}\\label{f^1}\\end{figure}\\begin{thm}t $x\\lab{t_1}$\\end{thm}\\begin{equation}q_2\\label{e_1}\\end{equation}'
           '\\subsection{B}\\label{s2}y \\subsubsection{C}\\label{s3}z \\paragraph{D}\\label{p1}w ' + post + '\\end{document}')
    tex = TeX(doc)
    tex.input(Src(list(src)))
    try:
        out = tex.parse()
    except (KeyError, ValueError, TypeError, IndexError, AttributeError) as ex:
        e.fail_exception(ex)
        return
    refs, allnodes = {}, set()

    def walk(n):
        for c in n.childNodes:
            if getattr(c, 'nodeType', None) == 1:
                allnodes.add(id(c))
                if c.nodeName == 'ref':
                    refs[str(c.attributes['label'])] = c
                walk(c)
    walk(out)
    for name, kind, number in OBJ_LABELS:
        r = refs.get(name)
        e.check(r is not None, 'reference to %s not found in the tree' % name, 'structure')
        if r is None:
            continue
        t = r.idref.get('label')
        e.check(t is not None and id(t) in allnodes, 'reference to the label on a %s does not resolve to a node of the document' % kind, 'wrong-target:' + kind)
        if t is None or id(t) not in allnodes:
            continue
        e.check(t.nodeName == kind, 'label written in a %s is attached to a <%s>' % (kind, t.nodeName), 'wrong-target:' + kind)
        num = getattr(t, 'ref', None)
        if number is None:
            e.check(num is None, 'the %s lies deeper than the numbering depth but carries number %r' % (kind, None if num is None else str(num.textContent)), 'wrong-number:' + kind)
        else:
            e.check(num is not None and str(num.textContent) == number, 'reference to the %s shows number %r, the object\'s number is %s' % (kind, None if num is None else str(num.textContent), number),
                    'wrong-number:' + kind)
        e.check(t.id == name, 'identifier of the labelled %s is %r' % (kind, t.id), 'object-id')
    ids = [refs[n].idref['label'].id for n, _, _ in OBJ_LABELS if n in refs and refs[n].idref.get('label') is not None]
    e.check(len(ids) == len(set(ids)), 'distinct labels give the same identifier', 'object-id')
    e.nontriv()


def _any(xs):
    r = False
    for x in xs:
        if x is True:
            return True
        if x is False:
            continue
        r = x if r is False else api.or_(r, x)
    return r


def _defined(key, S, target):
    for lv in target:
        if eq(S[lv], key):
            return True
    return False


def jobs(tier, seed):
    J = []
    q = tier == 'quick'
    chunk = 12

    def fam(n, stride, only_len=None):
        H = hist(n)
        for lo in range((seed % stride) * chunk, len(H), chunk * stride):
            J.append(dict(harness='h_refs', params=dict(fam=n, lo=lo, hi=min(len(H), lo + chunk)), label='histories<=%d [%d:%d]' % (n, lo, min(len(H), lo + chunk)),
                          no_twin=lo > 40))
    if q:
        fam(3, 1)
        fam(4, 8)
    else:
        fam(4, 1)
        fam(5, 12)
    J.append(dict(harness='h_refs', params=dict(fam='special', lo=0, hi=6), label='long histories'))
    J.append(dict(harness='h_refs', params=dict(fam='special', lo=6, hi=len(SPECIAL)), label='label in title histories'))
    J.append(dict(harness='h_eqn', params={}, label='eqnarray rows'))
    J.append(dict(harness='h_objects', params={}, label='labels on items/figure/theorem/equation'))
    if not q:
        J.append(dict(harness='h_refs', params=dict(fam='special', lo=0, hi=len(SPECIAL), nch=3), label='long histories 3-char labels'))
    return J
