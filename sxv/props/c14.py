"""C14  Every internal link in the rendered output lands on an existing target.

The real base Renderer renders parsed skeletons (labels and references across sectioning units, footnotes at several depths)
with the split level, the table-of-contents depth and toc-non-files symbolic.  While the renderable mixin is active a recording
renderer evaluates the Python-level link computations the templates use: Renderable.url, Macro.id, SectionUtils.tableofcontents /
fulltableofcontents / footnotes / links / allSections, the TableOfContents proxy."""
import os
from sxv import api
from sxv.api import eq
from sxv.props import common, render_common as RC

import plasTeX.Renderers as R

PROP = 'C14'
LEVEL = 'model_checking'
FUNCTIONS = ['plasTeX.Renderers:Renderable.url', 'plasTeX.Renderers:Renderable.filename', 'plasTeX:Macro.id', 'plasTeX.Base.LaTeX.Sectioning:SectionUtils.tableofcontents',
             'plasTeX.Base.LaTeX.Sectioning:SectionUtils.fulltableofcontents', 'plasTeX.Base.LaTeX.Sectioning:SectionUtils.subsections', 'plasTeX.Base.LaTeX.Sectioning:SectionUtils.footnotes',
             'plasTeX.Base.LaTeX.Sectioning:SectionUtils.links', 'plasTeX.Base.LaTeX.Sectioning:SectionUtils.allSections', 'plasTeX.Base.LaTeX.Sectioning:TableOfContents.__getattribute__',
             'plasTeX.Renderers:URL']
RULE = ('one evaluation = one path = one skeleton x base-url setting x one class of (split level, toc depth, toc-non-files); non-trivial = a reference whose target lies in another file')
BOUNDS = {
    'quick': '4 skeletons (article with citations, a bibliography, index entries at four depths and \\printindex; article with labels on sections, subsections and an equation, references from other units, footnotes in section / subsection / subsubsection; book; '
             'deep nesting) x base-url empty or set x split level z3 integer in [-10, 6] x toc-depth in [0, 5] x toc-non-files boolean',
    'thorough': 'as quick plus two more skeletons and dangling references',
}
ASSUMPTIONS = ['only the Python-level URL / identifier / table-of-contents / footnote computations are covered; the href and id attributes the Jinja2/ZPT templates finally emit are outside the claim',
               'the renderer is the real base Renderer with file output captured']
OUTSIDE = ['template output']
BUDGET_S = {'quick': 900, 'thorough': 3300}

SKELETONS = {
    'article': ('article', ['x0 \\ref{s2}', ('section', 's1', 'a\\footnote{f1} \\ref{ss1}'), ('subsection', 'ss1', 'b\\footnote{f2}\\begin{equation}y\\label{eq1}\\end{equation}'),
                            ('subsubsection', 'sss1', 'c\\footnote{f3} \\ref{s1} \\ref{s2}'), ('section', 's2', 'd \\ref{eq1} \\ref{sss1}'), ('subsection', 'ss2', 'e \\ref{ss1}\\footnote{f4}')]),
    'book': ('book', [('chapter', 'c1', 'a \\ref{s2}'), ('section', 's1', 'b\\footnote{f1} \\ref{c2}'), ('subsection', 'ss1', 'c\\footnote{f2} \\ref{c2}'), ('chapter', 'c2', 'd \\ref{ss1}'),
                      ('section', 's2', 'e\\footnote{f3} \\ref{s1}')]),
    'deep': ('article', [('section', 's1', 'a'), ('subsection', 'ss1', 'b'), ('subsubsection', 'sss1', 'c\\footnote{f1}'), ('paragraph', 'p1', 'd\\footnote{f2} \\ref{s1}'),
                         ('section', 's2', '\\ref{p1} \\ref{sss1}')]),
}
SKELETONS['bibindex'] = ('article', ['x0 \\cite{k2}\\index{zeta} ', ('section', 's1', 'a\\index{alpha} \\cite{k1} \\ref{s2}'), ('subsection', 'ss1', 'b\\index{beta}\\index{alpha} \\cite{k2,k1}'),
                                      ('subsubsection', 'sss1', 'c\\index{alpha!sub}'), ('section', 's2', 'd\\index{gamma!delta}\\index{\\_x}\\index{\\_y}\\index{Alpha} \\ref{ss1}'),
                                      '\\begin{thebibliography}{9}\\bibitem{k1}X\\bibitem{k2}Y\\end{thebibliography}\\printindex '])
# the number a resolved reference shows (default numbering depth 2: deeper units carry no number of their own)
NUMBERS = {'article': {'s1': '1', 'ss1': '1.1', 's2': '2', 'eq1': '1', 'ss2': '2.1'}, 'book': {'c1': '1', 's1': '1.1', 'ss1': '1.1.1', 'c2': '2', 's2': '2.1'},
           'deep': {'s1': '1', 'ss1': '1.1', 's2': '2'}, 'bibindex': {'s1': '1', 'ss1': '1.1', 's2': '2'}}
SECT = ('chapter', 'section', 'subsection', 'subsubsection', 'paragraph')


def reset():
    RC.reset()


class Rec(R.Renderer):
    def cleanup(self, document, files, postProcess=None):
        rec = self.rec = {'nodes': [], 'refs': [], 'foot': [], 'toc': None, 'cites': [], 'index': []}

        def nearest_file(n):
            while n is not None and getattr(n, 'filename', None) is None:
                n = n.parentNode
            return n

        def walk(n):
            for c in n.childNodes:
                if getattr(c, 'nodeType', None) == 1:
                    if c.nodeName in SECT or c.nodeName in ('document', 'equation'):
                        h = nearest_file(c)
                        rec['nodes'].append({'node': c, 'name': c.nodeName, 'file': c.filename, 'url': str(c.url), 'id': c.id, 'hfile': None if h is None else h.filename})
                    if c.nodeName == 'cite':
                        for b in c.bibitems:
                            bh = nearest_file(b)
                            rec['cites'].append({'url': str(b.url), 'id': b.id, 'hfile': None if bh is None else bh.filename, 'attached': _attached(b, document)})
                    if c.nodeName in ('printindex', 'theindex'):
                        def entries(es):
                            for en in es:
                                for pg in en.pages:
                                    if pg.normal:
                                        n = pg._cr_node
                                        nh = nearest_file(n)
                                        rec['index'].append({'url': str(pg.url), 'id': n.id, 'hfile': None if nh is None else nh.filename, 'attached': _attached(n, document)})
                                entries(list(en))
                        entries(list(c))
                        rec['groups'] = [(g.id, g.title) for g in c.groups]
                    if c.nodeName == 'ref':
                        t = c.idref.get('label')
                        th = nearest_file(t) if t is not None else None
                        rec['refs'].append({'node': c, 'label': str(c.attributes.get('label')), 'tnum': None if t is None or getattr(t, 'ref', None) is None else str(t.ref.textContent), 'target': t, 'turl': None if t is None else str(t.url), 'tid': None if t is None else t.id,
                                            'tfile': None if th is None else th.filename, 'townfile': None if t is None else t.filename,
                                            'attached': t is not None and _attached(t, document)})
                    walk(c)
        walk(document)
        for f in document.userdata.get('footnotes', []):
            holder = nearest_file(f)
            rec['foot'].append({'node': f, 'hfile': None if holder is None else holder.filename,
                                'listed': holder is not None and any(x is f for x in getattr(holder, 'footnotes', [])), 'url': str(f.url), 'id': f.id})
        top = [x['node'] for x in rec['nodes'] if x['name'] == 'document']
        if top:
            reached = []

            def follow(entries, depth):
                for t in entries:
                    reached.append((t._toc_node, t._toc_node.filename))
                    follow(t.tableofcontents, depth + 1)
            follow(top[0].tableofcontents, 1)
            rec['toc'] = reached
        self.filenames = list(self.files.values())
        return R.Renderer.cleanup(self, document, files, postProcess=postProcess)


def _attached(t, document):
    n = t
    while n is not None:
        if n is document:
            return True
        n = n.parentNode
    return False


def h_links(e, skel, base):
    cls, units = SKELETONS[skel]
    parts = ['\\documentclass{%s}\\begin{document}' % cls]
    levels = {'chapter': 0, 'section': 1, 'subsection': 2, 'subsubsection': 3, 'paragraph': 4}
    for u in units:
        if isinstance(u, str):
            parts.append(u + ' ')
        else:
            parts.append('\\%s{T}\\label{%s}%s ' % u)
    parts.append('\\end{document}')
    try:
        doc, out = RC.parse(e, parts)
    except (KeyError, ValueError, TypeError, IndexError, AttributeError) as ex:
        e.fail_exception(ex)
        return
    split = e.int('split', -10, 6)
    tocdepth = e.int('tocdepth', 0, 5)
    nonfiles = e.bool('toc_non_files')
    doc.config['files']['split-level'] = split
    doc.config['document']['toc-depth'] = tocdepth
    doc.config['document']['toc-non-files'] = nonfiles
    doc.config['document']['base-url'] = base
    r = Rec()
    d = RC.workdir()
    cwd = os.getcwd()
    os.chdir(d)
    try:
        cap = RC.render(doc, r, d)
    except (KeyError, ValueError, TypeError, IndexError, AttributeError) as ex:
        e.fail_exception(ex)
        return
    finally:
        os.chdir(cwd)
        RC.cleanup(d)
    rec = r.rec
    files = set(r.filenames)
    prefix = (base[:-1] if base.endswith('/') else base) + '/' if base else ''

    def split_url(u):
        if prefix:
            if not u.startswith(prefix):
                return None, None
            u = u[len(prefix):]
        if '#' in u:
            f, frag = u.split('#', 1)
            return f, frag
        return u, None
    cross = 0
    for x in rec['nodes']:
        f, frag = split_url(x['url'])
        if x['file'] is not None:
            e.check(f == x['file'] and frag is None, '<%s> opens file %r but its URL is %r' % (x['name'], x['file'], x['url']), 'url-of-file-node')
        else:
            e.check(x['hfile'] is not None and f == x['hfile'] and frag == x['id'], '<%s id=%s> lies in file %r but its URL is %r'
                    % (x['name'], x['id'], x['hfile'], x['url']), 'url-of-inner-node')
        e.check(f in files, 'URL %r names a file that is not produced (files: %s)' % (x['url'], sorted(files)), 'url-file-missing')
    for x in rec['refs']:
        e.check(x['target'] is not None and x['attached'], 'a reference to an existing label has no target in the document', 'ref-unresolved')
        if x['target'] is None or not x['attached']:
            continue
        want = NUMBERS.get(skel, {}).get(x['label'])
        if want is not None:
            e.check(x['tnum'] == want, 'the reference to %s shows %r, its target carries number %s' % (x['label'], x['tnum'], want), 'ref-number')
        f, frag = split_url(x['turl'])
        e.check(f in files, 'link %r names a file that is not produced' % x['turl'], 'link-file-missing')
        e.check(x['tfile'] is not None and f == x['tfile'], 'link %r: the target is rendered into file %r' % (x['turl'], x['tfile']), 'link-wrong-file')
        if x['townfile'] is None:
            e.check(frag == x['tid'], 'link %r: fragment is not the target\'s identifier %r' % (x['turl'], x['tid']), 'link-fragment')
    for kind, key in (('citation', 'cites'), ('index', 'index')):
        for x in rec[key]:
            f, frag = split_url(x['url'])
            e.check(x['attached'], 'a %s link points at a node that is not part of the document' % kind, kind + '-dangling')
            e.check(f in files, '%s link %r names a file that is not produced' % (kind, x['url']), kind + '-file-missing')
            e.check(x['hfile'] is not None and f == x['hfile'] and frag == x['id'], '%s link %r: the target (id %s) is rendered into file %r' % (kind, x['url'], x['id'], x['hfile']), kind + '-wrong-target')
    # identifiers unique per file
    per_file = {}
    for x in rec['cites'] + rec['index']:
        pass
    for x in rec['nodes'] + [{'hfile': y['hfile'], 'id': y['id'], 'name': 'footnote', 'file': None} for y in rec['foot']]:
        per_file.setdefault(x['hfile'], []).append(x['id'])
    for k, ids in per_file.items():
        e.check(len(ids) == len(set(ids)), 'identifiers repeated within file %r: %s' % (k, sorted(ids)), 'id-duplicate')
    # footnotes: the text is gathered by the unit that produces the file, the mark links into that file
    for y in rec['foot']:
        e.check(y['hfile'] is not None and y['listed'], 'a footnote is not listed by the unit that produces its file (%r): its text is lost and its mark dangles'
                % (y['hfile'],), 'footnote-lost')
        f, frag = split_url(y['url'])
        e.check(y['hfile'] is not None and f == y['hfile'] and frag == y['id'], 'footnote URL %r' % y['url'], 'footnote-url')
    # table of contents: with sufficient depth every file-producing unit is reachable from the start page
    fileunits = [(x['node'], x['file']) for x in rec['nodes'] if x['file'] is not None and x['name'] != 'document']
    if rec['toc'] is not None and fileunits:
        maxdepth = max(levels.get(n.nodeName, 0) for n, _ in fileunits) + 2
        if bool(tocdepth >= maxdepth):
            for n, fn in fileunits:
                e.check(any(t is n for t, _ in rec['toc']), 'file %r is not reachable through the table of contents although toc-depth covers the tree' % fn, 'toc-unreachable')
        for t, tf in rec['toc']:
            e.check(tf is not None or bool(nonfiles), 'the table of contents lists a unit without a file although toc-non-files is off', 'toc-nonfile')
    if skel == 'bibindex':
        gids = [g for g, _ in rec.get('groups', [])]
        e.check(len(gids) >= 4 and len(gids) == len(set(gids)), 'identifiers of the index groups (link targets of the letter bar) are not unique: %s' % gids, 'id-duplicate')
        e.check(len(rec['cites']) == 4 and len(rec['index']) == 9, 'citation links: %d (4 written), index page links: %d (9 written)' % (len(rec['cites']), len(rec['index'])), 'links-lost')
    e.observe([sorted(files), [x['turl'] for x in rec['refs']], [x['url'] for x in rec['cites']], len(rec['index'])])
    if len(files) >= 2:
        e.nontriv()


def jobs(tier, seed):
    J = []
    for skel in SKELETONS:
        for base in ('', 'http://h/p/'):
            J.append(dict(harness='h_links', params=dict(skel=skel, base=base), label='links %s base=%r' % (skel, base), no_twin=(skel, base) != ('article', '')))
    return J
