"""C18  The index lists every entry exactly once, under its key, in collation order.

Real code: index.invoke (entry parser), IndexEntry.__init__/__lt__, IndexUtils.digest (sort + prefix merge), IndexUtils.groups,
IndexUtils.splitColumns.  Symbolic: the size (totallen >= 1) of every entry and the column count for splitColumns; the
characters of an \\index argument (any of them may be a separator ! @ | or the quote "); the first character of the sort key
for grouping.  Key multisets for sort+merge are finite choices (documents are parsed for real)."""
import itertools
from sxv import api
from sxv.api import Src, eq
from sxv.props import common

from plasTeX import TeXDocument
from plasTeX.TeX import TeX
from plasTeX.Base.LaTeX import Index as IDX

PROP = 'C18'
LEVEL = 'model_checking'
FUNCTIONS = ['plasTeX.Base.LaTeX.Index:IndexUtils.splitColumns', 'plasTeX.Base.LaTeX.Index:IndexUtils.groups', 'plasTeX.Base.LaTeX.Index:IndexUtils.digest',
             'plasTeX.Base.LaTeX.Index:index.invoke', 'plasTeX.Base.LaTeX.Index:IndexEntry.__init__', 'plasTeX.Base.LaTeX.Index:IndexEntry.__lt__',
             'plasTeX.Base.LaTeX.Index:IndexUtils.Index.totallen']
RULE = ('one evaluation = one path: splitColumns - one class of (entry sizes, column count) the code distinguishes; parser - one class of the argument characters '
        '(which are separators/quotes); digest - one multiset of entries in one document order; non-trivial = >= 2 entries')
BOUNDS = {
    'quick': 'splitColumns: <= 5 entries with unbounded sizes >= 1 and columns 1..4; parser: arguments of 4 symbolic characters over {a, b, !, @, |, "}; '
             'digest: all ordered selections of 3 entries from a pool of 9 key paths (2 levels, @ sort keys, mixed case, |see); groups: 3 entries with symbolic ASCII initials',
    'thorough': 'splitColumns: <= 8 entries; parser: 6 characters; digest: selections of 4 from a pool of 12',
}
ASSUMPTIONS = ['collation is the fallback collator of this installation (lower-casing; pyuca is not installed) and unidecode is the identity on ASCII (asserted at start-up)',
               'int(a/b) on entry counts modelled as truncated real division (exact below 2^53)']
OUTSIDE = ['non-ASCII keys', 'indexes of more than 4 entries for sort+merge', 'rendered page references']
BUDGET_S = {'quick': 900, 'thorough': 3300}


def reset():
    common.reset_parser_state()


# ------------------------------------------------------------------------------------------- splitColumns
class _Item:
    def __init__(self, n, i):
        self.totallen = n
        self.i = i


def h_split(e, n):
    doc = TeXDocument()
    pi = doc.createElement('printindex')
    sizes = [e.int('len%d' % i, 1, None) for i in range(n)]
    cols = e.int('cols', 1, 4)
    items = [_Item(s, i) for i, s in enumerate(sizes)]
    try:
        out = pi.splitColumns(list(items), cols)
    except (IndexError, ValueError, TypeError, ZeroDivisionError) as ex:
        e.fail_exception(ex)
        return
    flat = [x for col in out for x in col]
    e.observe([[x.i for x in col] for col in out])
    e.check(len(flat) == n and all(a is b for a, b in zip(flat, items)),
            'columns %s are not an order-preserving partition of the %d entries' % ([[x.i for x in col] for col in out], n), 'columns-partition')
    e.check(cols == len(out), 'number of columns returned differs from the number requested', 'columns-count')
    if n >= 2:
        e.nontriv()


# ------------------------------------------------------------------------------------------- entry parser
def ref_parse(e, chars):
    """makeindex syntax: " quotes the next character, ! separates levels, @ separates sort key from display key, | starts the format"""
    key, sortkey, fmt = [], [], None
    cur = []
    i = 0
    infmt = False
    sk_pending = None
    while i < len(chars):
        c = chars[i]
        if infmt:
            fmt.append(c)
            i += 1
            continue
        if eq(c, '"'):
            if i + 1 < len(chars):
                cur.append(chars[i + 1])
            i += 2
            continue
        if eq(c, '!'):
            key.append(cur)
            sortkey.append(sk_pending if sk_pending is not None else cur)
            sk_pending = None
            cur = []
        elif eq(c, '@'):
            sk_pending = cur
            cur = []
        elif eq(c, '|'):
            key.append(cur)
            sortkey.append(sk_pending if sk_pending is not None else cur)
            sk_pending = None
            cur = []
            infmt = True
            fmt = []
        else:
            cur.append(c)
        i += 1
    if not infmt or not fmt:
        if not infmt:
            key.append(cur)
            sortkey.append(sk_pending if sk_pending is not None else cur)
    return key, sortkey, fmt


def h_parse(e, n):
    doc = TeXDocument()
    cs = []
    for i in range(n):
        c = e.char('c%d' % i, 33, 124)
        e.assume(e.one_of(c, 'ab!@|"'))
        cs.append(c)
    src = list('\\index{') + cs + list('}')
    tex = TeX(doc)
    tex.input(Src(src))
    try:
        tex.parse()
    except (IndexError, ValueError, TypeError, AttributeError, KeyError) as ex:
        e.fail_exception(ex)
        return
    ents = doc.userdata.get('index', [])
    e.check(len(ents) == 1, 'one \\index produced %d entries' % len(ents), 'entry-count')
    if len(ents) != 1:
        return
    ent = ents[0]
    key, sortkey, fmt = ref_parse(e, cs)
    # degenerate spellings are not conforming makeindex input: two @ in one level, an empty level, separators or quotes
    # inside the format part, a quote quoting the bar or the end, an empty format
    k = 0
    for c in cs:
        if eq(c, '|'):
            break
        k += 1
    for c in cs[k + 1:]:
        if e.one_of(c, '!@|"'):
            e.tag('nonconforming')
            return
    if k < len(cs) and k + 1 >= len(cs):
        e.tag('nonconforming')
        return
    ats = 0
    q = 0
    lvl_len = 0
    while q < k:
        c = cs[q]
        if eq(c, '"'):
            if q + 1 >= k:
                e.tag('nonconforming')
                return
            lvl_len += 1
            q += 2
            continue
        if eq(c, '@'):
            ats += 1
            if ats > 1 or lvl_len == 0:
                e.tag('nonconforming')
                return
            lvl_len = 0
        elif eq(c, '!'):
            if lvl_len == 0:
                e.tag('nonconforming')
                return
            ats = 0
            lvl_len = 0
        else:
            lvl_len += 1
        q += 1
    if lvl_len == 0:
        e.tag('nonconforming')
        return
    e.nontriv()
    got_key = [api.text_of(x.textContent) for x in ent.key]
    e.check(len(got_key) == len(key), 'entry has %d levels, %d written' % (len(got_key), len(key)), 'entry-levels')
    if len(got_key) != len(key):
        return
    for g, w in zip(got_key, key):
        e.check(eq(g, api.cat(w)), 'display key of a level differs', 'entry-key')
    e.check(len(ent.sortkey) == len(sortkey), 'sort key levels', 'entry-sortkey')
    if len(ent.sortkey) == len(sortkey):
        for g, w in zip(ent.sortkey, sortkey):
            e.check(eq(api.text_of(g if isinstance(g, str) or api.is_sym(g) else g.textContent), api.cat(w)), 'sort key of a level differs', 'entry-sortkey')
    e.check((ent.format is None) == (fmt is None), 'format part presence', 'entry-format')


# ------------------------------------------------------------------------------------------- sort + merge
POOL = ['apple', 'Apple', 'banana!x', 'apple!pie', 'apple!Pie', 'zeta@alpha', 'banana', 'apple!pie!hot', 'cherry|see{apple}', 'banana!y', 'alpha', 'b@Banana!x',
        'delta|(', 'delta|)', 'foo@\\texttt{foo}', 'foo', 'apple|textbf']


def ref_tree(entries):
    """entries: list of (sortpath tuple, keypath tuple) in document order -> ordered tree {(sort,key): [pages, children]}"""
    coll = lambda s: s.lower()
    order = sorted(range(len(entries)), key=lambda i: ([(coll(s), coll(k)) for s, k in zip(*entries[i])], len(entries[i][1])))
    tree = []

    def insert(level, path_s, path_k, idx):
        node_list = level
        for d, (s, k) in enumerate(zip(path_s, path_k)):
            for node in node_list:
                if node['s'] == s and node['k'] == k:
                    break
            else:
                node = {'s': s, 'k': k, 'pages': 0, 'kids': []}
                node_list.append(node)
            if d == len(path_k) - 1:
                node['pages'] += 1
            node_list = node['kids']
    for i in order:
        insert(tree, entries[i][0], entries[i][1], i)
    return tree


def _split(entry):
    body = entry.split('|')[0]
    ks, ss = [], []
    for lvl in body.split('!'):
        if '@' in lvl:
            s, k = lvl.split('@')
        else:
            s = k = lvl
        ks.append(k)
        ss.append(s)
    return tuple(ss), tuple(ks)


def h_digest(e, k, pool, sub=None):
    doc = TeXDocument()
    if sub is not None:
        sel = [sub[e.choice(len(sub), 'entry%d' % i)] for i in range(k)]
    else:
        sel = [e.choice(pool, 'entry%d' % i) for i in range(k)]
    src = '\\documentclass{article}\\usepackage{makeidx}\\makeindex\\begin{document}' + ''.join('w%d\\index{%s} ' % (i, POOL[j]) for i, j in enumerate(sel)) + \
          '\\printindex\\end{document}'
    tex = TeX(doc)
    tex.input(src)
    try:
        out = tex.parse()
    except (IndexError, ValueError, TypeError, AttributeError, KeyError) as ex:
        e.fail_exception(ex)
        return
    pis = out.getElementsByTagName('printindex')
    e.check(len(pis) == 1, 'printindex nodes: %d' % len(pis), 'structure')
    if len(pis) != 1:
        return
    want = ref_tree([_split(POOL[j]) for j in sel])

    def real(node):
        return [{'k': str(c.key.textContent), 's': str(c.sortkey), 'pages': len(c.pages), 'kids': real(c)} for c in node.childNodes
                if isinstance(c, IDX.IndexUtils.Index)]

    def strip(t):
        return [{'k': _keytext(n['k']), 's': n['s'], 'pages': n['pages'], 'kids': strip(n['kids'])} for n in t]
    got = real(pis[0])
    e.observe(got)
    # one page reference per occurrence, in document order
    marks = out.getElementsByTagName('index')
    pos = {id(n): i for i, n in enumerate(marks)}

    def pages_in_order(node):
        for c in node.childNodes:
            if isinstance(c, IDX.IndexUtils.Index):
                ps = [pos.get(id(pg._cr_node)) for pg in c.pages]
                e.check(None not in ps and ps == sorted(ps) and len(set(ps)) == len(ps), 'page references of %r are not in document order: occurrences %s' % (str(c.key.textContent), ps), 'page-order')
                pages_in_order(c)
    pages_in_order(pis[0])

    def ordered(t):
        ks = [(n['s'].lower(), n['k'].lower()) for n in t]
        return ks == sorted(ks) and all(ordered(n['kids']) for n in t)

    def canon(t):
        return sorted(({'k': n['k'], 's': n['s'], 'pages': n['pages'], 'kids': canon(n['kids'])} for n in t), key=lambda n: (n['s'].lower(), n['k'].lower(), n['s'], n['k']))
    e.check(ordered(got), 'index entries are not in collation order: %s' % _show(got), 'index-order')
    e.check(canon(got) == canon(strip(want)), 'index tree %s differs from the reference %s for entries %s' % (_show(got), _show(strip(want)), [POOL[j] for j in sel]), 'index-tree')
    # groups: partition of the top-level entries in order, titled by initial
    flat = []
    for g in pis[0].groups:
        for col in g:
            for it in col:
                flat.append(it)
                init = str(it.sortkey)[0].upper()
                e.check(g.title == init, 'entry under heading %r, its initial is %r' % (g.title, init), 'group-title')
    tops = [c for c in pis[0].childNodes if isinstance(c, IDX.IndexUtils.Index)]
    e.check(len(flat) == len(tops) and all(a is b for a, b in zip(flat, tops)), 'groups/columns are not an order-preserving partition of the entries', 'group-partition')
    if k >= 2:
        e.nontriv()


def _keytext(k):
    """visible text of a written display key (one level of \\cmd{...} markup)"""
    import re
    m = re.fullmatch(r'\\[a-z]+\{(.*)\}', k)
    return m.group(1) if m else k


def _show(t):
    return '[' + ', '.join('%s(%d)%s' % (n['k'], n['pages'], _show(n['kids']) if n['kids'] else '') for n in t) + ']'


# ------------------------------------------------------------------------------------------- groups with symbolic initials
def h_groups(e, n):
    doc = TeXDocument()
    pi = doc.createElement('printindex')
    inits = []
    for i in range(n):
        c = e.char('g%d' % i, 33, 126)
        inits.append(c)
        it = IDX.IndexUtils.Index()
        it.ownerDocument = doc
        it.sortkey = api.cat([c, 'x'])
        it.key = doc.createTextNode('k')
        pi.append(it)
    cols = e.choice(3, 'cols') + 1
    doc.config['document']['index-columns'] = cols
    try:
        gs = pi.groups
    except (IndexError, ValueError, TypeError, AttributeError, KeyError) as ex:
        e.fail_exception(ex)
        return
    flat = []
    for g in gs:
        e.check(len(g) == cols, 'group has %d columns, %d requested' % (len(g), cols), 'columns-count')
        for col in g:
            for it in col:
                flat.append((g.title, it))
    items = list(pi.childNodes)
    e.check(len(flat) == n and all(f[1] is it for f, it in zip(flat, items)), 'groups are not an order-preserving partition', 'group-partition')
    for (title, it), c in zip(flat, inits):
        o = api.ord_(c)
        if api.or_(api.and_(o >= 65, o <= 90), api.and_(o >= 97, o <= 122)):
            up = api.chr_(o - 32) if o >= 97 else c
            e.check(eq(title, up), 'letter entry under heading %r' % (title,), 'group-title')
        elif eq(c, '_'):
            e.check(title == '_ (Underscore)', 'underscore heading', 'group-title')
        else:
            e.check(title == 'Symbols', 'non-letter entry under heading %r instead of Symbols' % (title,), 'group-title')
    # adjacent entries with the same heading share one group
    for a in range(len(gs) - 1):
        e.check(api.not_(eq(gs[a].title, gs[a + 1].title)), 'two consecutive groups with the same heading', 'group-split')
    e.nontriv()


def jobs(tier, seed):
    J = []
    q = tier == 'quick'
    for n in (range(1, 6) if q else range(1, 9)):
        J.append(dict(harness='h_split', params=dict(n=n), label='splitColumns n=%d' % n, no_twin=n > 2))
    J.append(dict(harness='h_parse', params=dict(n=4 if q else 6), label='entry parser'))
    J.append(dict(harness='h_parse', params=dict(n=2), label='entry parser short'))
    J.append(dict(harness='h_digest', params=dict(k=3 if q else 4, pool=9 if q else 12), label='sort+merge'))
    J.append(dict(harness='h_digest', params=dict(k=2, pool=len(POOL)), label='sort+merge pairs'))
    J.append(dict(harness='h_digest', params=dict(k=3 if q else 4, pool=0, sub=[0, 2, 12, 13, 14, 15, 16]), label='sort+merge ranges/markup/formats', no_twin=True))
    J.append(dict(harness='h_groups', params=dict(n=3), label='groups'))
    return J
