"""C20  Cross-document label data survives a round trip and never blocks processing.

Real code: Context.persist / Context.restore, Macro.persist / Macro.restore.  The C decoder of pickle cannot be encoded; the
environment is a *nondeterministic stub*: pickle.load either raises one of the exception classes the decoder can raise, or
returns a value from a bounded shape grammar (every nesting of None / int / str / list / dict around the per-renderer and
per-label entries).  This over-approximates every truncation and bit flip.  Counterexamples are replayed with REAL bytes: the
offending value is pickled into a real file (or real bytes producing the same exception class are written) and the real
pickle.load is used.  Label texts in the round trip are symbolic characters."""
import os
import pickle
import tempfile
from sxv import api
from sxv.api import Src, eq
from sxv.props import common

from plasTeX import TeXDocument
from plasTeX.TeX import TeX

PROP = 'C20'
LEVEL = 'fault_enumeration'
FUNCTIONS = ['plasTeX.Context:Context.persist', 'plasTeX.Context:Context.restore', 'plasTeX:Macro.persist', 'plasTeX:Macro.restore']
RULE = ('one evaluation = one path = one behaviour of the decoder stub (exception class, or a value of the shape grammar) x one operation sequence '
        '(restore | persist | persist;restore | persist by renderer A;persist by renderer B;restore A) x label texts; non-trivial = the stub does not return a well-formed file')
BOUNDS = {
    'quick': '12 exception classes and 36 value shapes of the previously saved file x 4 operation sequences; round trip of 2 labels with symbolic 2-character names over {a,b}',
    'thorough': 'as quick, plus nested malformed per-label entries (attribute values None / int / list / nested dict) and 3 renderer keys',
}
ASSUMPTIONS = ['pickle.load is a nondeterministic stub in symbolic runs (raises any of the listed exception classes or returns any value of the shape grammar); this over-approximates '
               'truncation at any byte and bit flips, which can only make the decoder raise or return some Python value',
               'concrete replay writes real bytes and uses the real pickle.load wherever a byte recipe for the behaviour exists (all value shapes; EOFError, UnpicklingError, '
               'AttributeError, ModuleNotFoundError, ValueError, UnicodeDecodeError, TypeError), otherwise the stub raises the exception',
               'labels are created by parsing \\section{..}\\label{..}; files live in a fresh temporary directory']
OUTSIDE = ['byte-level truncation positions as such (covered by the over-approximation argument, not enumerated)', 'unpicklable label attributes']
BUDGET_S = {'quick': 900, 'thorough': 3300}

EXC = ['EOFError', 'UnpicklingError', 'AttributeError', 'ModuleNotFoundError', 'ImportError', 'IndexError', 'MemoryError', 'ValueError', 'KeyError', 'TypeError',
       'UnicodeDecodeError', 'RecursionError']
BYTES = {
    'EOFError': b'',
    'UnpicklingError': b'garbage',
    'AttributeError': b'cos\nnosuchattributexyz\n.',
    'ModuleNotFoundError': b'cnosuchmodulexyz\nx\n.',
    'ValueError': b'Ixyz\n.',
    'UnicodeDecodeError': b'\x80\x04\x8c\x02\xff\xfe.',
    'TypeError': b'\x80\x04K\x01K\x02\x85R.',
}
GOOD = {'macroName': 'section', 'ref': '7', 'title': 'Old', 'id': 'old', 'url': 'old.html#old'}


def shapes(tier):
    """values the decoder may hand back: (description, value)"""
    per_label = [None, 'text', 7, {}, dict(GOOD), {'macroName': 'nosuchmacroxyz', 'ref': '1'}, {'macroName': 5}, {'ref': None, 'id': 3}]
    if tier != 'quick':
        per_label += [{'macroName': 'section', 'ref': ['a'], 'title': {'x': 1}}, [1, 2], {'macroName': None}, {5: 'x'}]
    per_renderer = [None, 5, [], 'x', {}] + [{'k%d' % i: y} for i, y in enumerate(per_label)] + [{'ok': dict(GOOD), 'bad': 5}]
    tops = [None, 5, 'x', [1], (1, 2), {}]
    for x in per_renderer:
        tops.append({'R': x})
        tops.append({'R': x, 'OTHER': {'keep': dict(GOOD)}})
    tops.append({'OTHER': {'keep': dict(GOOD)}})
    tops.append({'OTHER': 5})
    return tops


class _Stub:
    """replaces pickle.load for one call"""

    def __init__(self, behaviour):
        self.behaviour = behaviour

    def __call__(self, fh, *a, **kw):
        kind, val = self.behaviour
        if kind == 'exc':
            cls = {'UnpicklingError': pickle.UnpicklingError}.get(val) or getattr(__import__('builtins'), val)
            if cls is UnicodeDecodeError:
                raise UnicodeDecodeError('utf-8', b'\xff', 0, 1, 'invalid start byte')
            raise cls('stub')
        import copy
        return copy.deepcopy(val)


_REAL_LOAD = pickle.load


def reset():
    pickle.load = _REAL_LOAD
    common.reset_parser_state()


def _prepare_file(e, path, behaviour):
    """put the previously saved file in place; returns True when real bytes realise the behaviour (real pickle.load is used)"""
    kind, val = behaviour
    if kind == 'val':
        with open(path, 'wb') as fh:
            pickle.dump(val, fh)
        real = True
    elif val in BYTES:
        with open(path, 'wb') as fh:
            fh.write(BYTES[val])
        real = True
    else:
        with open(path, 'wb') as fh:
            fh.write(b'?')
        real = False
    if e.symbolic or not real:
        pickle.load = _Stub(behaviour)
    else:
        pickle.load = _REAL_LOAD
    return real


def _doc_with_labels(e, names):
    doc = TeXDocument()
    src = []
    for i, n in enumerate(names):
        src += ['\\section{T%d}\\label{' % i, n, '}']
    chars = []
    for p in src:
        chars.extend(api.chars(p))
    tex = TeX(doc)
    tex.input(Src(chars))
    tex.parse()
    return doc


def h_fault(e, tier, seq):
    S = shapes(tier)
    k = e.choice(len(EXC) + len(S), 'behaviour')
    behaviour = ('exc', EXC[k]) if k < len(EXC) else ('val', S[k - len(EXC)])
    d = tempfile.mkdtemp(prefix='sxv-c20-', dir='/var/tmp')
    path = os.path.join(d, 'doc.paux')
    try:
        names = ['la', 'lb']
        doc = _doc_with_labels(e, names)
        ctx = doc.context
        if seq == 'restore':
            _prepare_file(e, path, behaviour)
            before = dict(ctx.labels)
            try:
                ctx.restore(path, 'R')
            except Exception as ex:
                e.check(False, 'restore raised %s: %s on a saved file whose decoder %s' % (type(ex).__name__, str(ex)[:80], _describe(behaviour)), 'restore-raises')
                return
            finally:
                pickle.load = _REAL_LOAD
            for key in before:
                e.check(ctx.labels.get(key) is before[key], 'restore dropped or replaced an existing label', 'restore-clobbers')
            for key, node in ctx.labels.items():
                if key not in before:
                    e.check(hasattr(node, 'nodeName') and hasattr(node, 'persist'), 'restore added a label that is not a node', 'restore-illformed')
        else:
            _prepare_file(e, path, behaviour)
            try:
                ctx.persist(path, 'R')
            except Exception as ex:
                e.check(False, 'persist raised %s: %s on a previous file whose decoder %s' % (type(ex).__name__, str(ex)[:80], _describe(behaviour)), 'persist-raises')
                return
            finally:
                pickle.load = _REAL_LOAD
            e.check(os.path.exists(path), 'persist left no file', 'persist-nofile')
            try:
                with open(path, 'rb') as fh:
                    saved = pickle.load(fh)
            except Exception as ex:
                e.check(False, 'the re-saved file is not loadable: %s' % type(ex).__name__, 'persist-unloadable')
                return
            e.check(isinstance(saved, dict) and isinstance(saved.get('R'), dict), 'the re-saved file has no dictionary for the saving renderer', 'persist-shape')
            if not (isinstance(saved, dict) and isinstance(saved.get('R'), dict)):
                return
            for n in names:
                e.check(n in saved['R'] and isinstance(saved['R'][n], dict) and saved['R'][n].get('id') == n, 'label %r missing from the re-saved file' % n, 'persist-incomplete')
            # data of another renderer that was loadable and well formed must survive
            if behaviour[0] == 'val' and isinstance(behaviour[1], dict) and isinstance(behaviour[1].get('OTHER'), dict) and isinstance(behaviour[1].get('R', {}), dict):
                e.check(saved.get('OTHER') == behaviour[1]['OTHER'], 'another renderer\'s saved labels were dropped by persist', 'persist-other-renderer')
            if seq == 'persist-restore':
                doc2 = TeXDocument()
                try:
                    doc2.context.restore(path, 'R')
                except Exception as ex:
                    e.check(False, 'restore of the re-saved file raised %s' % type(ex).__name__, 'restore-raises')
                    return
                for n in names:
                    node = doc2.context.labels.get(n)
                    e.check(node is not None and getattr(node, 'id', None) == n, 'label %r not restored from the re-saved file' % n, 'roundtrip')
        if behaviour != ('val', {'R': {'k4': GOOD}}):
            e.nontriv()
    finally:
        pickle.load = _REAL_LOAD
        for f in os.listdir(d):
            os.unlink(os.path.join(d, f))
        os.rmdir(d)


def _describe(b):
    return ('raises ' + b[1]) if b[0] == 'exc' else ('returns %r' % (b[1],))[:120]


def h_roundtrip(e):
    """save by one run, restore by another: same label set with the same number, title, target; separately per renderer"""
    d = tempfile.mkdtemp(prefix='sxv-c20-', dir='/var/tmp')
    path = os.path.join(d, 'doc.paux')
    try:
        n1 = api.cat([e.char('n1_0', 97, 98), e.char('n1_1', 97, 98)])
        n2 = api.cat([e.char('n2_0', 97, 98), e.char('n2_1', 97, 98)])
        e.assume(api.not_(eq(n1, n2)))
        # label names must be real strings to be pickled: fix them by the model (forks over the 4x4 names)
        if e.symbolic:
            from sxv.core import concretize_value
            n1 = ''.join(chr(e.concretize(c)) for c in n1.chars)
            n2 = ''.join(chr(e.concretize(c)) for c in n2.chars)
        doc = _doc_with_labels(e, [n1, n2])
        other = e.bool('other_renderer_first')
        if other:
            docB = _doc_with_labels(e, ['zz'])
            docB.context.persist(path, 'B')
        doc.context.persist(path, 'A')
        doc2 = TeXDocument()
        doc2.context.restore(path, 'A')
        labs = doc2.context.labels
        e.check(sorted(labs.keys()) == sorted([n1, n2]), 'restored label set %r differs from the saved one %r' % (sorted(labs.keys()), sorted([n1, n2])), 'roundtrip-set')
        for i, n in enumerate([n1, n2]):
            node = labs.get(n)
            if node is None:
                continue
            orig = doc.context.labels[n]
            e.check(node.id == n, 'restored id', 'roundtrip-attr')
            e.check(str(getattr(node, 'ref', None)) == str(orig.ref) and str(getattr(node, 'title', None)) == str(orig.title), 'restored number/title differ from the saved ones', 'roundtrip-attr')
        if other:
            doc3 = TeXDocument()
            doc3.context.restore(path, 'B')
            e.check(sorted(doc3.context.labels.keys()) == ['zz'], 'labels of the other renderer: %r' % sorted(doc3.context.labels.keys()), 'roundtrip-renderer')
        e.nontriv()
    finally:
        for f in os.listdir(d):
            os.unlink(os.path.join(d, f))
        os.rmdir(d)


def jobs(tier, seed):
    J = []
    for seq in ('restore', 'persist', 'persist-restore'):
        J.append(dict(harness='h_fault', params=dict(tier=tier, seq=seq), label='decoder stub x %s' % seq))
    J.append(dict(harness='h_roundtrip', params={}, label='round trip'))
    return J
