"""shared set-up for property modules"""
import logging
from plasTeX.TeX import TeX
import plasTeX

TeX.disableLogging()
logging.disable(logging.CRITICAL)

_PC = plasTeX.ParameterCommand


def reset_parser_state():
    """class-level parser state that a path may leave unbalanced when it is aborted mid-way"""
    _PC.enabled = True
    _PC._enablelevel = 0
    from plasTeX.Base.TeX import Primitives
    from plasTeX.Base.LaTeX import Lists, Math
    del Primitives.MathShift.inEnv[:]
    Lists.List.depth = 0
    Math.BeginMath.disableMath = Math.EndMath.disableMath = False
