"""Shared set-up for the rendering properties (C12, C13, C14): the REAL renderers run end to end (split-level/template
interpretation, mixin, filename caching, rendering recursion, file routing, cleanup, unmix); only file I/O is captured in memory."""
import os
import io
import tempfile
import shutil

from sxv import api
from sxv.props import common

import plasTeX
import plasTeX.Renderers as R
from plasTeX.DOM import Node
from plasTeX import TeXDocument
from plasTeX.TeX import TeX


class Capture:
    """in-memory stand-in for open(); contents may be symbolic strings"""

    def __init__(self):
        self.files = {}
        self.order = []

    def _key(self, name):
        # symbolic file name: reuse the stored name it equals (decided by the solver), else the object itself
        for k in self.files:
            if api.eq(k, name) is True or (api.eq(k, name) is not False and bool(api.eq(k, name))):
                return k
        return api.text_of(name)

    def open(self, filename, mode='r', *a, **kw):
        cap = self
        fn = os.path.normpath(str(filename)) if isinstance(filename, str) else cap._key(filename)

        class F:
            def __init__(self):
                self.parts = []

            def __enter__(self):
                return self

            def __exit__(self, *exc):
                if 'w' in mode:
                    cap.files[fn] = api.cat(self.parts) if self.parts else ''
                    if fn not in cap.order:
                        cap.order.append(fn)
                return False

            def write(self, s):
                self.parts.append(s)

            def read(self):
                return cap.files[fn]

            def close(self):
                self.__exit__()
        if 'r' in mode and fn not in self.files:
            raise FileNotFoundError(fn)
        return F()


_PATCHED = []


def _patch(module, name, value):
    had = name in module.__dict__
    _PATCHED.append((module, name, module.__dict__.get(name), had))
    module.__dict__[name] = value


def unpatch():
    while _PATCHED:
        module, name, old, had = _PATCHED.pop()
        if had:
            module.__dict__[name] = old
        else:
            module.__dict__.pop(name, None)
    # a path aborted in the middle of render() leaves the renderable mixin on Node
    if hasattr(Node, '_mixed_'):
        try:
            R.unmix(Node, R.Renderable)
        except Exception:
            pass
        import plasTeX.Renderers.PageTemplate as PT
        for cls in (getattr(PT, 'Renderable', None),):
            if cls is not None and hasattr(Node, '_mixed_'):
                try:
                    R.unmix(Node, cls)
                except Exception:
                    pass
    if 'renderer' in Node.__dict__:
        try:
            del Node.renderer
        except Exception:
            pass


def reset():
    unpatch()
    common.reset_parser_state()


def parse(e, parts):
    doc = TeXDocument()
    chars = []
    for p in parts:
        chars.extend(api.chars(p))
    tex = TeX(doc)
    tex.input(api.Src(chars))
    out = tex.parse()
    return doc, out


def render(doc, renderer, workdir):
    """run renderer.render(doc) with file output captured; returns Capture"""
    cap = Capture()
    doc.config['images']['imager'] = 'none'
    doc.config['images']['vector-imager'] = 'none'
    doc.userdata['working-dir'] = workdir
    doc.userdata['jobname'] = 'job'
    doc.context.persistentLabels = {}
    import plasTeX.Renderers.PageTemplate as PT
    _patch(R, 'open', cap.open)
    _patch(PT, 'open', cap.open)
    try:
        R.Renderer.render(renderer, doc)
    finally:
        unpatch()
    return cap


def workdir():
    return tempfile.mkdtemp(prefix='sxv-render-', dir='/var/tmp')


def cleanup(d):
    shutil.rmtree(d, ignore_errors=True)
