"""C03  Conditionals process exactly the branch TeX would select.

Programs are generated conditional skeletons written as LaTeX *source text*, run through the real tokenizer,
expansion loop, test primitives and TeX.processIfContent.  Test operands are symbolic: count registers hold
unbounded z3 integers (so the \\ifcase selector is an unbounded integer), dimen registers unbounded whole numbers of scaled points, \\newif
switches z3 booleans, \\ifx characters symbolic letters.  The oracle is a recursive evaluator of TeX's rules."""
import itertools
from sxv import api
from sxv.api import Src

import plasTeX
from sxv.props import common
from plasTeX import TeXDocument
from plasTeX.TeX import TeX

PROP = 'C03'
LEVEL = 'model_checking'
FUNCTIONS = ['plasTeX.TeX:TeX.processIfContent', 'plasTeX.TeX:TeX.readInteger', 'plasTeX.TeX:TeX.readDimen', 'plasTeX.TeX:TeX.readOptionalSigns',
             'plasTeX.TeX:TeX.__iter__', 'plasTeX.TeX:TeX.itertokens', 'plasTeX.TeX:TeX.pushTokens', 'plasTeX.TeX:TeX.parse',
             'plasTeX.Base.TeX.Primitives:ifnum.invoke', 'plasTeX.Base.TeX.Primitives:ifdim.invoke', 'plasTeX.Base.TeX.Primitives:ifodd.invoke',
             'plasTeX.Base.TeX.Primitives:ifcase.invoke', 'plasTeX.Base.TeX.Primitives:ifx.invoke', 'plasTeX.Base.TeX.Primitives:ifdefined.invoke',
             'plasTeX.Base.TeX.Primitives:iftrue.invoke', 'plasTeX.Base.TeX.Primitives:iffalse.invoke', 'plasTeX:NewIf.invoke', 'plasTeX:IfTrue.invoke',
             'plasTeX:IfFalse.invoke', 'plasTeX.Context:Context.newif', 'plasTeX:ParameterCommand.__count__', 'plasTeX:number.__new__']
RULE = ('one evaluation = one path = one skeleton x one truth assignment class of its tests (z3 splits the unbounded operand space into the classes '
        'the code distinguishes); non-trivial = the skeleton has >= 2 conditionals or an \\ifcase or an \\else')
BOUNDS = {
    'quick': 'all skeletons with 1 conditional and every second block of 12 (offset from VERIF_SEED) of the 2430 skeletons with 2 conditionals (nesting depth <= 2) over {iftrue,iffalse,ifnum(<,=,>),ifodd,ifdim,ifx,ifdefined(defined/undefined),'
             'newif switch with true/false setters, ifcase with 1..3 cases} each with/without \\else, a marker and a \\stepcounter in every branch; '
             'operands unbounded integers / reals / booleans',
    'thorough': 'as quick plus all skeletons with 3 conditionals over {iftrue,iffalse,ifnum,newif,ifcase 1..2 cases} (depth <= 3) and a depth-4 chain family; '
                'conditionals inside a macro body and inside a macro argument',
}
ASSUMPTIONS = ['normal form of DESIGN.md section 3 (complete conditionals, \\or only under \\ifcase, operands are registers so no literal termination issue)',
               'count/dimen registers are given symbolic values by assigning the class attribute `value` (that is where plasTeX stores them)',
               'dimen registers hold whole scaled points (as in TeX); \\ifdim compares them after rounding to whole scaled points']
OUTSIDE = ['mode tests (\\ifvmode, \\ifhmode, \\ifmmode, \\ifinner) are constants in plasTeX and not part of the generated heads',
           'skeletons with more than 3 conditionals except the depth-4 chain family', '\\ifcat, \\if, \\ifcsname']
BUDGET_S = {'quick': 900, 'thorough': 3300}

HEADS = ['true', 'false', 'num<', 'num=', 'num>', 'odd', 'dim<', 'dim>', 'x', 'defined', 'undefined', 'foo', 'case1', 'case2', 'case3']
HEADS_SMALL = ['true', 'false', 'num<', 'foo', 'case1', 'case2']


# ------------------------------------------------------------------------------------------- skeletons
# cond  = (head, [branch...], else_branch_or_None)        branch = [items...]
# item  = ('m',) marker | ('step',) | ('set', bool) | cond
def nbranches(head):
    return int(head[4:]) if head.startswith('case') else 1


def gen_conds(k, depth, heads, setters=True):
    """all conditionals with exactly k conditional nodes and nesting depth <= depth"""
    if k < 1 or depth < 1:
        return
    for head in heads:
        nb = nbranches(head)
        for has_else in (False, True):
            slots = nb + (1 if has_else else 0)
            # distribute the k-1 remaining conditionals over the slots
            for dist in distributions(k - 1, slots):
                if depth == 1 and any(dist):
                    continue
                options = [list(gen_bodies(n, depth - 1, heads)) for n in dist]
                for combo in itertools.product(*options):
                    brs = list(combo[:nb])
                    els = combo[nb] if has_else else None
                    yield (head, brs, els)


def distributions(n, slots):
    if slots == 1:
        yield (n,)
        return
    for i in range(n + 1):
        for rest in distributions(n - i, slots - 1):
            yield (i,) + rest


def gen_bodies(k, depth, heads):
    """branch bodies containing exactly k conditionals: marker, step, then the conditionals each followed by a marker"""
    if k == 0:
        yield [('m',), ('step',)]
        return
    if depth < 1:
        return
    # sequences of conditionals c1 .. cj with sizes summing to k
    for sizes in compositions(k):
        options = [list(gen_conds(n, depth, heads)) for n in sizes]
        for combo in itertools.product(*options):
            body = [('m',), ('step',)]
            for c in combo:
                body.append(c)
                body.append(('m',))
            yield body


def compositions(k):
    if k == 0:
        yield ()
        return
    for first in range(1, k + 1):
        for rest in compositions(k - first):
            yield (first,) + rest


def count_conds(body):
    n = 0
    for it in body:
        if it[0] not in ('m', 'step', 'set'):
            n += 1 + sum(count_conds(b) for b in it[1]) + (count_conds(it[2]) if it[2] is not None else 0)
    return n


def top_bodies(k, depth, heads):
    return list(gen_bodies(k, depth, heads))


# ------------------------------------------------------------------------------------------- rendering
class Render:
    def __init__(self):
        self.src = []
        self.nmark = 0

    def marker(self):
        m = 'ABCDEFGHIJKLMNOPQRSTUVWXYZ'[self.nmark % 26] * (1 + self.nmark // 26)
        self.nmark += 1
        return m

    def body(self, body, st):
        out = []
        for it in body:
            if it[0] == 'm':
                m = self.marker()
                self.src.append(m)
                out.append(('m', m))
            elif it[0] == 'step':
                self.src.append('\\stepcounter{cnt}')
                out.append(('step',))
            else:
                out.append(self.cond(it, st))
        return out

    def cond(self, c, st):
        head, brs, els = c
        if head == 'true':
            self.src.append('\\iftrue ')
        elif head == 'false':
            self.src.append('\\iffalse ')
        elif head.startswith('num'):
            self.src += ['\\ifnum', st['sa']] + ([st['sb']] if head[3] == '<' else []) + ['\\ra%s' % head[3], '\\rb ']
        elif head == 'odd':
            self.src += ['\\ifodd', st['sa'], '\\ra ']
        elif head.startswith('dim'):
            self.src.append('\\ifdim\\da%s\\db ' % head[3])
        elif head == 'x':
            self.src.append('\\ifx ')
            self.src.append(st['xa'])
            self.src.append(st['xb'])
        elif head == 'defined':
            self.src.append('\\ifdefined\\relax ')
        elif head == 'undefined':
            self.src.append('\\ifdefined\\nosuchmacroxyz ')
        elif head == 'foo':
            self.src.append('\\iffoo ')
        else:
            self.src += ['\\ifcase', st['sa'], '\\rc ']
        rb = []
        for i, b in enumerate(brs):
            if i:
                self.src.append('\\or ')
            body = self.body(b, st)
            # a \newif setter at the end of the first branch of a `foo` test flips the switch for what follows
            if head in ('true', 'false') and i == 0:
                self.src.append('\\footrue ' if head == 'false' else '\\foofalse ')
                body.append(('set', head == 'false'))
            elif head in ('num<', 'odd', 'case2') and i == 0:
                # declaring the switch again and then setting it: the setter must act on the switch in use
                self.src.append('\\newif\\iffoo\\footrue ' if head != 'odd' else '\\newif\\iffoo\\foofalse ')
                body.append(('set', head != 'odd'))
            rb.append(body)
        re_ = None
        if els is not None:
            self.src.append('\\else ')
            re_ = self.body(els, st)
        self.src.append('\\fi ')
        return (head, rb, re_)


def ref_eval(e, body, st, out):
    """TeX's rule: exactly the selected branch is processed"""
    for it in body:
        if it[0] == 'm':
            out['text'].append(it[1])
        elif it[0] == 'step':
            out['steps'] += 1
        elif it[0] == 'set':
            st['foo'] = it[1]
        else:
            head, brs, els = it
            if head.startswith('case'):
                sel = None
                for i in range(len(brs)):
                    if _sg(st, 'sa') * st['rc'] == i:
                        sel = brs[i]
                        break
                if sel is None:
                    sel = els
            else:
                if head == 'true':
                    v = True
                elif head == 'false':
                    v = False
                elif head == 'num<':
                    v = _sg(st, 'sa') * _sg(st, 'sb') * st['ra'] < st['rb']
                elif head == 'num=':
                    v = _sg(st, 'sa') * st['ra'] == st['rb']
                elif head == 'num>':
                    v = _sg(st, 'sa') * st['ra'] > st['rb']
                elif head == 'odd':
                    v = (st['ra'] % 2) == 1
                elif head == 'dim<':
                    v = st['da'] < st['db']
                elif head == 'dim>':
                    v = st['da'] > st['db']
                elif head == 'x':
                    v = api.eq(st['xa'], st['xb'])
                elif head == 'defined':
                    v = True
                elif head == 'undefined':
                    v = False
                elif head == 'foo':
                    v = st['foo']
                sel = brs[0] if v else els
            if sel is not None:
                ref_eval(e, sel, st, out)


def _sg(st, k):
    return -1 if api.eq(st[k], '-') else 1


_SKEL_CACHE = {}


def skeletons(family):
    if family not in _SKEL_CACHE:
        if family == 'k1':
            r = top_bodies(1, 1, HEADS)
        elif family == 'k2':
            r = top_bodies(2, 2, HEADS)
        elif family == 'k3':
            r = top_bodies(3, 3, HEADS_SMALL)
        elif family == 'chain4':
            r = []
            for hs in itertools.product(['true', 'false', 'case2', 'foo'], repeat=4):
                for elses in itertools.product((False, True), repeat=4):
                    for where in (0, 1):          # nest in first branch or in the else/last branch
                        inner = [('m',), ('step',)]
                        for h, el in zip(reversed(hs), reversed(elses)):
                            nb = nbranches(h)
                            brs = [[('m',), ('step',)] for _ in range(nb)]
                            elsb = [('m',), ('step',)] if el else None
                            if where == 0 or not el:
                                brs[-1 if where else 0] = inner
                            else:
                                elsb = inner
                            inner = [('m',), ('step',), (h, brs, elsb), ('m',)]
                        r.append(inner)
        _SKEL_CACHE[family] = r
    return _SKEL_CACHE[family]


def reset():
    common.reset_parser_state()


def h_cond(e, family, lo, hi, wrap='none'):
    sk = skeletons(family)[lo:hi]
    body = sk[e.choice(len(sk), 'skeleton')]
    doc = TeXDocument()
    ctx = doc.context
    ctx.newif('iffoo')
    ctx.newcounter('cnt')
    st = {}
    for r in ('ra', 'rb', 'rc'):
        ctx.newcount(r)
        st[r] = e.int(r)
        ctx[r].value = e.num(plasTeX.count, st[r])
    for r in ('da', 'db'):
        ctx.newdimen(r)
        v = e.int(r)                      # TeX's dimen registers hold whole scaled points
        st[r] = v
        if e.symbolic:
            import z3
            from sxv.core import RealProxy, SymReal
            ctx[r].value = RealProxy(plasTeX.dimen, SymReal(e, z3.ToReal(v.z)))
        else:
            ctx[r].value = plasTeX.dimen(float(v))
    st['foo'] = e.bool('foo')
    ctx['iffoo'].state = st['foo']
    st['xa'] = e.char('xa', 97, 122)
    st['xb'] = e.char('xb', 97, 122)
    # optional signs in front of integer operands (TeX: any run of + and -)
    st['sa'] = e.char('sa', 43, 45)
    e.assume(e.one_of(st['sa'], '+-'))
    st['sb'] = e.char('sb', 43, 45)
    e.assume(e.one_of(st['sb'], '+-'))
    R = Render()
    if wrap == 'macro':
        R.src.append('\\def\\mac{')
    elif wrap == 'arg':
        R.src.append('\\def\\mac#1{[#1]}\\mac{')
    rbody = R.body(body, dict(st))
    if wrap == 'macro':
        R.src.append('}\\mac Z')
    elif wrap == 'arg':
        R.src.append('}Z')
    chars = []
    for part in R.src:
        chars.extend(api.chars(part))
    tex = TeX(doc)
    tex.input(Src(chars))
    try:
        outdoc = tex.parse()
        got = outdoc.textContent
    except (IndexError, KeyError, ValueError, TypeError, AttributeError) as ex:
        e.fail_exception(ex, 'raises:%s' % type(ex).__name__)
        return
    got = ''.join(str(got).split())
    exp = {'text': [], 'steps': 0}
    ref_eval(e, rbody, dict(st), exp)
    want = ''.join(exp['text'])
    if wrap == 'macro':
        want += 'Z'
    elif wrap == 'arg':
        want = '[' + want + ']Z'
    steps = ctx.counters['cnt'].value
    e.observe([got, int(steps)])
    nconds = count_conds(body)
    casey = 'case' in repr(body)
    e.check(got == want, 'processed text %r differs from the selected branches %r (skeleton %s)' % (got, want, ''.join(R.src if all(isinstance(x, str) for x in R.src) else ['<sym>'])[:200]),
            'branch-text' + (':ifcase' if casey else ''))
    e.check(steps == exp['steps'], 'side effects: counter stepped %s times, selected branches step it %s times' % (steps, exp['steps']),
            'branch-side-effect' + (':ifcase' if casey else ''))
    if nconds >= 2 or casey or "else" in ''.join(x for x in R.src if isinstance(x, str)):
        e.nontriv()


ASSIGN_TESTS = {
    'ifnum>': ('\\ifnum\\ra>4 A\\else B\\fi', lambda v: 'A' if v > 4 else 'B'),
    'ifnum= literal first': ('\\ifnum 5=\\ra A\\else B\\fi', lambda v: 'A' if v == 5 else 'B'),
    'ifodd': ('\\ifodd\\ra A\\else B\\fi', lambda v: 'A' if v % 2 else 'B'),
    'ifcase': ('\\ifcase\\ra A\\or B\\or C\\or D\\else E\\fi', lambda v: 'ABCD'[v] if v < 4 else 'E'),
    'ifcase nested': ('\\ifcase\\ra A\\or \\ifnum\\ra=1 B\\else b\\fi\\or C\\fi', lambda v: {0: 'A', 1: 'B', 2: 'C'}.get(v, '')),
    'macro number': ('\\def\\n{\\ra}\\ifnum\\n<3 A\\else B\\fi', lambda v: 'A' if v < 3 else 'B'),
    'counter': ('\\setcounter{cnt}{\\ra}\\ifnum\\value{cnt}>6 A\\else B\\fi', lambda v: 'A' if v > 6 else 'B'),
}
TERMINATORS = {'blank': ' ', 'relax': '\\relax ', 'newline': '\n', 'two blanks': '  '}


def h_assign(e, test, term, wrap):
    """a register is assigned (literal ended by a blank / \\relax / end of line) and the very next thing is a conditional on it:
    the test sees the new value"""
    src_test, want = ASSIGN_TESTS[test]
    doc = TeXDocument()
    ctx = doc.context
    ctx.newcount('ra')
    ctx.newcounter('cnt')
    d = e.char('d', 48, 57)
    v = api.ord_(d) - 48
    vv = e.concretize(v.z) if e.symbolic and hasattr(v, 'z') else v
    parts = ['\\ra=', d, TERMINATORS[term], src_test, ' Z']
    if wrap == 'group':
        parts = ['{'] + parts + ['}']
    elif wrap == 'macro':
        parts = ['\\def\\mac{'] + parts + ['}\\mac ']
    chars = []
    for p in parts:
        chars.extend(api.chars(p))
    tex = TeX(doc)
    tex.input(Src(chars))
    try:
        got = tex.parse().textContent
    except (IndexError, KeyError, ValueError, TypeError, AttributeError) as ex:
        e.fail_exception(ex, 'raises:%s' % type(ex).__name__)
        return
    got = ''.join(str(got).split())
    e.observe(got)
    e.check(got == want(vv) + 'Z', 'after \\ra=%s the conditional %s yields %r, TeX selects %r' % (vv, src_test, got, want(vv) + 'Z'), 'branch-text:after-assignment')
    e.nontriv()


NAMED = {
    'iff': ('$p\\iff q$', 'p\u27faq'),
    'ifthenelse': ('\\ifthenelse{1=1}{y}{n}', 'y'),
    'ifthenelse-else': ('\\ifthenelse{1=2}{y}{n}', 'n'),
    'unknown-conditional': ('\\ifvqunknown u\\else v\\fi ', None),       # a conditional of a package plasTeX does not know: only its nesting matters
}


def h_named(e, which, place):
    """control sequences whose name starts with `if` but that are not conditionals (\\iff, \\ifthenelse) inside the branches of a conditional: they open no
    nesting level; an unknown \\if... name is treated as a conditional so that its \\else / \\fi stay with it"""
    src_item, text = NAMED[which]
    doc = TeXDocument()
    ctx = doc.context
    ctx.newif('iffoo')
    foo = e.bool('foo')
    ctx['iffoo'].state = foo
    ctx.newcount('ra')
    v = e.int('ra', -2, 5)
    ctx['ra'].value = e.num(plasTeX.count, v)
    if place == 'then':
        body = '\\iffoo A' + src_item + ' B\\else C\\fi Z'
        want = ('A' + (text or '') + 'B' if foo else 'C') + 'Z'
    elif place == 'else':
        body = '\\iffoo A\\else B' + src_item + ' C\\fi Z'
        want = ('A' if foo else 'B' + (text or '') + 'C') + 'Z'
    elif place == 'inner':
        body = '\\iffoo A\\ifnum\\ra>1 B' + src_item + ' C\\else D\\fi E\\else F\\fi Z'
        want = (('A' + ('B' + (text or '') + 'C' if v > 1 else 'D') + 'E') if foo else 'F') + 'Z'
    else:
        body = '\\ifcase\\ra A\\or B' + src_item + ' C\\or D\\else E\\fi Z'
        want = ('A' if v == 0 else ('B' + (text or '') + 'C' if v == 1 else ('D' if v == 2 else 'E'))) + 'Z'
    if text is None and ((place == 'then' and foo) or (place == 'else' and not foo) or (place == 'inner' and foo and v > 1) or (place == 'case' and v == 1)):
        return                                   # the unknown conditional would be processed: what it does then is not claimed
    tex = TeX(doc)
    tex.input(Src(list('\\usepackage{ifthen}' + body)))
    try:
        got = tex.parse().textContent
    except (IndexError, KeyError, ValueError, TypeError, AttributeError) as ex:
        e.fail_exception(ex, 'raises:%s' % type(ex).__name__)
        return
    got = ''.join(str(got).split())
    e.observe(got)
    e.check(got == want, 'with %s in the %s branch the conditional yields %r, TeX selects %r' % (which, place, got, want), 'branch-text:named-if')
    e.nontriv()


def jobs(tier, seed):
    J = []

    def fam(family, chunk, wrap='none', stride=1):
        n = len(skeletons(family))
        for lo in range((seed % stride) * chunk, n, chunk * stride):
            J.append(dict(harness='h_cond', params=dict(family=family, lo=lo, hi=min(n, lo + chunk), wrap=wrap),
                          label='%s[%d:%d]%s' % (family, lo, min(n, lo + chunk), '' if wrap == 'none' else ' ' + wrap)))
    fam('k1', 8)
    for test in ASSIGN_TESTS:
        for term in TERMINATORS:
            for wrap in (('none',) if tier == 'quick' else ('none', 'group', 'macro')):
                J.append(dict(harness='h_assign', params=dict(test=test, term=term, wrap=wrap), label='assignment then %s (%s, %s)' % (test, term, wrap), no_twin=True))
    for which in NAMED:
        for place in ('then', 'else', 'inner', 'case'):
            J.append(dict(harness='h_named', params=dict(which=which, place=place), label='%s in the %s branch' % (which, place), no_twin=True))
    if tier == 'quick':
        fam('k2', 12, stride=2)
        fam('k1', 8, wrap='macro')
    else:
        fam('k2', 40)
        fam('k3', 60)
        fam('chain4', 32)
        fam('k1', 8, wrap='macro')
        fam('k1', 8, wrap='arg')
        fam('k2', 40, wrap='macro', stride=4)
    return J
