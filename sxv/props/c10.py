"""C10  Lists and tables keep their shape: items, rows, cells and spans as written.

LaTeX source is parsed by the real code (Array.invoke/digest/applyBorders/linkCells/compileColspec, ArrayRow/ArrayCell digestion,
BorderCommand.applyBorders, multicolumn, CellDelimiter/EndRow, List.invoke/digest, List.item.invoke/digest, Macro.digestUntil).
Symbolic: the \\multicolumn span, the two ends of \\cline ranges, the repeat count of *{n}{..}, every cell/item text character.
Oracle: rows x cells with the text between the separators, spans as given (row sums = declared columns), a rule marks exactly the
cells whose column interval meets its range (interval arithmetic decided by z3), vertical bars/alignments from the column
specification; one item per \\item with nested lists inside their item and description terms attached."""
import itertools
from sxv import api
from sxv.api import Src, eq, ord_
from sxv.props import common

from plasTeX import TeXDocument
from plasTeX.TeX import TeX

PROP = 'C10'
LEVEL = 'model_checking'
FUNCTIONS = ['plasTeX.Base.LaTeX.Arrays:Array.invoke', 'plasTeX.Base.LaTeX.Arrays:Array.digest', 'plasTeX.Base.LaTeX.Arrays:Array.applyBorders', 'plasTeX.Base.LaTeX.Arrays:Array.linkCells',
             'plasTeX.Base.LaTeX.Arrays:Array.compileColspec', 'plasTeX.Base.LaTeX.Arrays:Array.ArrayRow.digest', 'plasTeX.Base.LaTeX.Arrays:Array.ArrayRow.applyBorders',
             'plasTeX.Base.LaTeX.Arrays:Array.ArrayCell.digest', 'plasTeX.Base.LaTeX.Arrays:Array.ArrayCell.borders', 'plasTeX.Base.LaTeX.Arrays:Array.BorderCommand.applyBorders',
             'plasTeX.Base.LaTeX.Arrays:Array.multicolumn.invoke', 'plasTeX.Base.LaTeX.Arrays:Array.CellDelimiter.invoke', 'plasTeX.Base.LaTeX.Arrays:Array.EndRow.invoke',
             'plasTeX.Base.LaTeX.Lists:List.invoke', 'plasTeX.Base.LaTeX.Lists:List.digest', 'plasTeX.Base.LaTeX.Lists:List.item.invoke', 'plasTeX.Base.LaTeX.Lists:List.item.digest',
             'plasTeX:Macro.digestUntil']
RULE = ('one evaluation = one path = one table/list skeleton x one class of its symbolic spans, ranges, counts and characters; non-trivial = a table with a span or a rule, a nested list')
BOUNDS = {
    'quick': 'tables of 3 rows x 4 declared columns: \\multicolumn at every (row, position) with a symbolic span; every placement of {none, \\hline, \\cline{a-b}} in two of the four rule '
             'slots with a,b symbolic in 1..4, with and without a spanning cell; 6 column specifications incl. *{n}{..} with symbolic n and bars inside/outside; empty cells; '
             '8 specifications with @{} (leading, between, with bars), p{}, >{} / <{}; rules next to content-less rows (bare \\\\, empty cells, \\\\[len]) at the end and between rows; '
             'an ungrouped declaration in each cell of 2 rows; a 2x2 tabular nested in 3 positions of a 2x2 tabular x inner rule {none, \\hline, \\cline} x outer rules; lists: 15 skeletons (itemize/enumerate/description nested to depth 3, multi-paragraph items, terms with brackets, '
             'grouped and ungrouped declarations in items) with symbolic item characters, and a blank line / newline / comment between \\begin and the first \\item',
    'thorough': 'all placements of rules in the four slots; 4-row tables; lists nested to depth 4',
}
ASSUMPTIONS = ['a horizontal rule written between two rows may be recorded either as the bottom border of the row above or as the top border of the row below',
               'a rule range [a,b] marks a cell iff the cell\'s column interval meets [a,b] (DESIGN.md section 5 C10)',
               'p{} / @{} column contents are not examined']
OUTSIDE = ['longtable, tabularx, booktabs rules', 'tables nested more than one level', 'tables wider than 4 columns']
BUDGET_S = {'quick': 900, 'thorough': 3300}

ALIGN = {'l': 'left', 'c': 'center', 'r': 'right'}


def reset():
    common.reset_parser_state()


def _parse(e, parts):
    doc = TeXDocument()
    chars = []
    for p in parts:
        chars.extend(api.chars(p))
    tex = TeX(doc)
    tex.input(Src(chars))
    try:
        return tex.parse()
    except (KeyError, ValueError, TypeError, IndexError, AttributeError) as ex:
        e.fail_exception(ex)
        return None


def _rows(tab):
    return [r for r in tab.childNodes if getattr(r, 'nodeName', None) == 'ArrayRow']


def _celltext(c):
    return api.cat([x for x in api.chars(api.text_of(c.textContent)) if not (eq(x, ' ') or eq(x, '\n'))]) if len(api.chars(api.text_of(c.textContent))) else ''


def _has(cell, side):
    st = cell.style
    return st.get('border-%s-style' % side) == 'solid' or bool(st.get('border-%s' % side))


# ------------------------------------------------------------------------------------------- spans + column specification
COLSPECS = {
    'plain': ('l|c|r|l', ['l', 'c', 'r', 'l'], [False, True, True, True, False]),
    'boxed': ('|l|c|r|l|', ['l', 'c', 'r', 'l'], [True, True, True, True, True]),
    'nobars': ('lcrl', ['l', 'c', 'r', 'l'], [False] * 5),
    'mixed': ('r|lc|l', ['r', 'l', 'c', 'l'], [False, True, False, True, False]),
}
# bars[j] = vertical bar at the left of column j+1 (j=0: before the first column; j=4: after the last)


def h_spans(e, spec, mc_row, mc_pos):
    colspec, types, bars = COLSPECS[spec]
    ncol = 4
    maxspan = ncol - mc_pos
    span = e.int('span', 1, maxspan)
    sd = api.chr_(span + 48)
    rows = []
    parts = ['\\begin{tabular}{%s}' % colspec]
    for r in range(3):
        cells = []
        col = 0
        k = 0
        while col < ncol:
            ch = e.char('t%d_%d' % (r, k), 97, 122)
            if r == mc_row and k == mc_pos:
                cells.append({'text': ch, 'span': span, 'mc': True, 'start': col})
                col = col + span
                txt = ['\\multicolumn{', sd, '}{c}{', ch, '}']
            else:
                cells.append({'text': ch, 'span': 1, 'mc': False, 'start': col})
                col += 1
                txt = [ch]
            parts += (['&'] if k else []) + txt
            k += 1
            if not isinstance(col, int):
                col = e.concretize(col.z) if e.symbolic else col
        rows.append(cells)
        parts.append('\\\\' if r < 2 else '')
    parts.append('\\end{tabular}')
    out = _parse(e, parts)
    if out is None:
        return
    tabs = out.getElementsByTagName('tabular')
    e.check(len(tabs) == 1, 'tabular nodes: %d' % len(tabs), 'table-structure')
    if len(tabs) != 1:
        return
    real = _rows(tabs[0])
    e.check(len(real) == 3, 'table has %d rows, 3 written' % len(real), 'table-rows')
    if len(real) != 3:
        return
    for r, (rr, cells) in enumerate(zip(real, rows)):
        rc = list(rr.childNodes)
        e.check(len(rc) == len(cells), 'row %d has %d cells, %d written' % (r, len(rc), len(cells)), 'table-cells')
        if len(rc) != len(cells):
            return
        total = 0
        for k, (c, w) in enumerate(zip(rc, cells)):
            e.check(eq(_celltext(c), w['text']), 'row %d cell %d: text' % (r, k), 'cell-text')
            got_span = c.attributes.get('colspan', 1) if c.attributes else 1
            e.check(got_span == w['span'], 'row %d cell %d: colspan %r, written %r' % (r, k, got_span, w['span']), 'cell-span')
            total = total + got_span
            start = w['start']
            if w['mc']:
                e.check(c.style.get('text-align') == 'center', 'multicolumn cell alignment %r' % c.style.get('text-align'), 'cell-align')
            else:
                e.check(c.style.get('text-align') == ALIGN[types[start]], 'row %d cell %d (column %d): alignment %r, the column is %r' % (r, k, start + 1, c.style.get('text-align'), types[start]),
                        'cell-align')
                e.check(bool(c.style.get('border-right')) == bars[start + 1], 'row %d cell %d (column %d): right bar %r, specification says %r' % (r, k, start + 1, bool(c.style.get('border-right')), bars[start + 1]),
                        'cell-vbar')
                e.check(bool(c.style.get('border-left')) == (bars[0] if start == 0 else False), 'row %d cell %d (column %d): left bar' % (r, k, start + 1), 'cell-vbar')
        e.check(total == ncol, 'row %d: spans sum to %r, %d columns declared' % (r, total, ncol), 'row-sum')
    e.check(getattr(tabs[0], 'numCols', None) == ncol, 'numCols %r' % getattr(tabs[0], 'numCols', None), 'table-columns')
    e.nontriv()


def h_colspec(e, form):
    """*{n}{..} with symbolic n; bars inside or directly outside the repeated group"""
    n = e.int('n', 1, 3)
    nd = api.chr_(n + 48)
    nn = e.concretize(n.z) if e.symbolic else n
    if form == 'inside':            # l*{n}{c|}r
        spec = ['l*{', nd, '}{c|}r']
        types = ['l'] + ['c'] * nn + ['r']
        right = [False] + [True] * nn + [False]
        left0 = False
    elif form == 'outside':         # |*{n}{c}|r|
        spec = ['|*{', nd, '}{c}|r|']
        types = ['c'] * nn + ['r']
        right = [False] * (nn - 1) + [True, True]
        left0 = True
    else:                           # l*{n}{rc}|l
        spec = ['l*{', nd, '}{rc}|l']
        types = ['l'] + ['r', 'c'] * nn + ['l']
        right = [False] + [False, False] * (nn - 1) + [False, True] + [False]
        left0 = False
    ncol = len(types)
    parts = ['\\begin{tabular}{'] + spec + ['}']
    texts = []
    for r in range(2):
        for k in range(ncol):
            ch = e.char('t%d_%d' % (r, k), 97, 122)
            texts.append(ch)
            parts += (['&'] if k else []) + [ch]
        parts.append('\\\\' if r == 0 else '')
    parts.append('\\end{tabular}')
    out = _parse(e, parts)
    if out is None:
        return
    tab = out.getElementsByTagName('tabular')[0]
    real = _rows(tab)
    e.check(len(real) == 2 and all(len(r.childNodes) == ncol for r in real), 'table shape', 'table-cells')
    if not (len(real) == 2 and all(len(r.childNodes) == ncol for r in real)):
        return
    for r in real:
        for k, c in enumerate(r.childNodes):
            e.check(c.style.get('text-align') == ALIGN[types[k]], 'column %d of %s: alignment %r, specification gives %r' % (k + 1, form, c.style.get('text-align'), types[k]), 'cell-align')
            e.check(bool(c.style.get('border-right')) == right[k], 'column %d (%s, n=%d): right bar %r, specification gives %r' % (k + 1, form, nn, bool(c.style.get('border-right')), right[k]), 'cell-vbar')
            e.check(bool(c.style.get('border-left')) == (left0 and k == 0), 'column %d: left bar' % (k + 1), 'cell-vbar')
    e.nontriv()


# column specifications with inter-column material, paragraph columns and >{}/<{} hooks: (spec, column types, bar right of column k, bar left of column 1)
SPECS2 = {
    'at-lead': ('@{}ll@{}', 'll', [False, False], False),
    'at-between': ('l@{ }c@{--}r', 'lcr', [False, False, False], False),
    'at-bars': ('|@{}l|@{x}r@{}|', 'lr', [True, True], True),
    'at-only-lead': ('@{x}c', 'c', [False], False),
    'para': ('lp{2cm}|r', 'llr', [False, True, False], False),
    'para-first': ('|p{1cm}|c', 'lc', [True, False], True),
    'hooks': ('>{\\bfseries}l<{!}|c', 'lc', [True, False], False),
    'star-at': ('*{2}{@{}c}@{}', 'cc', [False, False], False),
}


def h_colspec2(e, name):
    spec, types, right, left0 = SPECS2[name]
    ncol = len(types)
    parts = ['\\begin{tabular}{' + spec + '}']
    texts = []
    for r in range(2):
        row = []
        for k in range(ncol):
            ch = e.char('t%d_%d' % (r, k), 97, 122)
            row.append(ch)
            parts += (['&'] if k else []) + [ch]
        texts.append(row)
        parts.append('\\\\' if r == 0 else '')
    parts.append('\\end{tabular}')
    out = _parse(e, parts)
    if out is None:
        return
    tab = out.getElementsByTagName('tabular')[0]
    e.check(len(tab.colspec) == ncol, 'the specification %s declares %d columns, %d compiled' % (spec, ncol, len(tab.colspec)), 'colspec-columns')
    real = _rows(tab)
    e.check(len(real) == 2 and all(len(r.childNodes) == ncol for r in real), 'table shape', 'table-cells')
    if not (len(real) == 2 and all(len(r.childNodes) == ncol for r in real)):
        return
    for r, row in zip(real, texts):
        for k, c in enumerate(r.childNodes):
            got = [x for x in api.chars(api.text_of(c.textContent)) if not (eq(x, ' ') or eq(x, '!'))]
            e.check(len(got) == 1 and eq(got[0], row[k]), 'column %d of %s: cell text' % (k + 1, spec), 'table-cells')
            e.check(c.style.get('text-align') == ALIGN[types[k]], 'column %d of %s: alignment %r, specification gives %r' % (k + 1, spec, c.style.get('text-align'), types[k]), 'cell-align')
            e.check(bool(c.style.get('border-right')) == right[k], 'column %d of %s: right bar %r, specification gives %r' % (k + 1, spec, bool(c.style.get('border-right')), right[k]), 'cell-vbar')
            e.check(bool(c.style.get('border-left')) == (left0 and k == 0), 'column %d of %s: left bar' % (k + 1, spec), 'cell-vbar')
    e.nontriv()


# ------------------------------------------------------------------------------------------- horizontal rules
RULES = ['none', 'hline', 'cline']


def h_rules(e, slots, mc, empty_first):
    """3 rows x 4 columns; slots = rule kind in (before row 0, between 0/1, between 1/2, after row 2)"""
    ncol = 4
    parts = ['\\begin{tabular}{lcrl}']
    ranges = []
    rowcells = []
    for r in range(3):
        kind = slots[r]
        if kind == 'hline':
            parts.append('\\hline ')
            ranges.append((1, ncol))
        elif kind == 'cline':
            a = e.int('a%d' % r, 1, 4)
            b = e.int('b%d' % r, 1, 4)
            e.assume(a <= b)
            parts += ['\\cline{', api.chr_(a + 48), '-', api.chr_(b + 48), '} ']
            ranges.append((a, b))
        else:
            ranges.append(None)
        cells = []
        if mc and r == 1:
            cells.append((1, 2))
            parts.append('\\multicolumn{2}{c}{m}&x&y')
            cells += [(3, 3), (4, 4)]
        else:
            first = '' if (empty_first and r == 1) else 'p'
            parts.append('%s&q&r&s' % first)
            cells = [(1, 1), (2, 2), (3, 3), (4, 4)]
        rowcells.append(cells)
        parts.append('\\\\ ')
    kind = slots[3]
    if kind == 'hline':
        parts.append('\\hline ')
        ranges.append((1, ncol))
    elif kind == 'cline':
        a = e.int('a3', 1, 4)
        b = e.int('b3', 1, 4)
        e.assume(a <= b)
        parts += ['\\cline{', api.chr_(a + 48), '-', api.chr_(b + 48), '} ']
        ranges.append((a, b))
    else:
        ranges.append(None)
    parts.append('\\end{tabular}')
    out = _parse(e, parts)
    if out is None:
        return
    tab = out.getElementsByTagName('tabular')[0]
    real = _rows(tab)
    e.check(len(real) == 3, 'table has %d rows, 3 non-empty rows written' % len(real), 'table-rows')
    if len(real) != 3:
        return
    for r in range(3):
        e.check(len(real[r].childNodes) == len(rowcells[r]), 'row %d has %d cells' % (r, len(real[r].childNodes)), 'table-cells')
        if len(real[r].childNodes) != len(rowcells[r]):
            return

    def meets(cell, rng):
        if rng is None:
            return False
        lo, hi = cell
        a, b = rng
        return api.and_(a <= hi, b >= lo)
    # slot i lies above row i (i = 0..2) and below row i-1 (i = 1..3)
    for r in range(3):
        for k, cell in enumerate(rowcells[r]):
            c = real[r].childNodes[k]
            top = _has(c, 'top')
            bottom = _has(c, 'bottom')
            above_self = meets(cell, ranges[r])
            below_self = meets(cell, ranges[r + 1])
            # rule above this row: recorded on this cell's top, or on the bottom of the cell(s) above
            if r == 0:
                e.check(_same(top, above_self),
                        'row 0 cell %d: top border %r, rule above covers it: %s' % (k, top, _show(ranges[0])), 'hrule')
            if r == 2:
                e.check(_same(bottom, below_self), 'last row cell %d: bottom border %r, rule below: %s' % (k, bottom, _show(ranges[3])), 'hrule')
            if r > 0:
                # the rule between row r-1 and row r must be visible along this cell's upper edge: on its top, or on the bottoms of all cells above it
                uppers = [real[r - 1].childNodes[j] for j, cc in enumerate(rowcells[r - 1]) if not (cc[1] < cell[0] or cc[0] > cell[1])]
                seen = top or (len(uppers) > 0 and all(_has(u, 'bottom') for u in uppers))
                if not seen:
                    e.check(api.not_(above_self) if not isinstance(above_self, bool) else not above_self,
                            'row %d cell %d (columns %d-%d): a rule %s above it is not recorded on any adjacent border' % (r, k, cell[0], cell[1], _show(ranges[r])), 'hrule-missing')
                if top:
                    e.check(above_self, 'row %d cell %d (columns %d-%d) has a top border but the rule above it is %s' % (r, k, cell[0], cell[1], _show(ranges[r])), 'hrule-extra')
            if r < 2 and bottom:
                e.check(below_self, 'row %d cell %d (columns %d-%d) has a bottom border but the rule below it is %s' % (r, k, cell[0], cell[1], _show(ranges[r + 1])), 'hrule-extra')
    e.nontriv()


def h_celldecl(e, row, k):
    """an ungrouped declaration inside a cell ends with the cell: the table keeps its shape, later cells and rows are not inside it"""
    cells = [['p', 'q', 'r', 's'], ['t', 'u', 'v', 'w'], ['h', 'i', 'j', 'k']]
    decl = ['\\bfseries ', '\\itshape ', '\\small ', '\\centering '][e.choice(4, 'decl')]
    name = decl.strip()[1:]
    parts = ['\\begin{tabular}{lcrl}']
    for r in range(3):
        row_parts = []
        for c in range(4):
            row_parts.append((decl if (r, c) == (row, k) else '') + cells[r][c])
        parts.append('&'.join(row_parts) + '\\\\ ')
    parts.append('\\end{tabular}')
    out = _parse(e, parts)
    if out is None:
        return
    tab = out.getElementsByTagName('tabular')[0]
    real = _rows(tab)
    e.check(len(real) == 3 and all(r.parentNode is tab for r in real), 'table has %d rows directly inside it, 3 written' % len(real), 'table-rows')
    if len(real) != 3:
        return
    for r in range(3):
        got = [str(c.textContent).strip() for c in real[r].childNodes if getattr(c, 'nodeName', None) == 'ArrayCell']
        e.check(got == cells[r], 'row %d holds cells %r, written %r' % (r, got, cells[r]), 'table-cells')
    decls = out.getElementsByTagName(name)
    e.check(len(decls) == 1, '%d <%s> nodes' % (len(decls), name), 'table-cells')
    if len(decls) == 1:
        e.check(str(decls[0].textContent).strip() == cells[row][k], 'the declaration \\%s written in one cell encloses %r' % (name, str(decls[0].textContent).strip()), 'declaration-leak')
    e.nontriv()


def h_nested(e, pos, inner_rule, outer_rule):
    """a tabular inside a cell of a tabular: each table keeps its own rows, cells and rules"""
    pos = tuple(pos)
    ic = [[e.char('i%d%d' % (r, k), 97, 122) for k in range(2)] for r in range(2)]
    oc = {(r, k): e.char('o%d%d' % (r, k), 97, 122) for r in range(2) for k in range(2) if (r, k) != pos}
    inner = ['\\begin{tabular}{c|c}', ic[0][0], '&', ic[0][1], '\\\\ '] + (['\\hline '] if inner_rule == 'hline' else (['\\cline{2-2} '] if inner_rule == 'cline' else [])) + \
            [ic[1][0], '&', ic[1][1], '\\end{tabular}']
    parts = ['\\begin{tabular}{l|l}']
    if outer_rule in ('top', 'both'):
        parts.append('\\hline ')
    for r in range(2):
        for k in range(2):
            if k:
                parts.append('&')
            parts.extend(inner if (r, k) == pos else [oc[(r, k)]])
        parts.append('\\\\ ')
        if r == 0 and outer_rule in ('middle-cline', 'both'):
            parts.append('\\cline{2-2} ')
    parts.append('\\end{tabular}')
    out = _parse(e, parts)
    if out is None:
        return
    tabs = out.getElementsByTagName('tabular')
    e.check(len(tabs) == 2, '%d tabular nodes for one table nested in another' % len(tabs), 'table-rows')
    if len(tabs) != 2:
        return
    outer = tabs[0]
    rows = _rows(outer)
    e.check(len(rows) == 2 and all(len([c for c in r.childNodes]) == 2 for r in rows), 'outer table shape: %s' % [len(r.childNodes) for r in rows], 'table-cells')
    if not (len(rows) == 2 and all(len(r.childNodes) == 2 for r in rows)):
        return
    cell = rows[pos[0]].childNodes[pos[1]]
    inners = cell.getElementsByTagName('tabular')
    e.check(len(inners) == 1, 'the nested table is not inside the cell it was written in', 'table-cells')
    if len(inners) != 1:
        return
    irows = _rows(inners[0])
    e.check(len(irows) == 2 and all(len(r.childNodes) == 2 for r in irows), 'inner table shape', 'table-cells')
    if not (len(irows) == 2 and all(len(r.childNodes) == 2 for r in irows)):
        return
    for r in range(2):
        for k in range(2):
            e.check(eq(_celltext(irows[r].childNodes[k]), ic[r][k]), 'inner cell (%d,%d) text' % (r, k), 'table-cells')
            if (r, k) != pos:
                e.check(eq(_celltext(rows[r].childNodes[k]), oc[(r, k)]), 'outer cell (%d,%d) text' % (r, k), 'table-cells')
    # rules: the inner rule lies between the inner rows only; the outer rules mark outer cells only
    def between(rws, k):
        return _has(rws[0].childNodes[k], 'bottom') or _has(rws[1].childNodes[k], 'top')
    for k in range(2):
        want_i = inner_rule == 'hline' or (inner_rule == 'cline' and k == 1)
        e.check(between(irows, k) == want_i, 'inner table, column %d: rule between its rows %s, written: %s' % (k + 1, between(irows, k), inner_rule), 'hrule-missing' if want_i else 'hrule-extra')
        want_o = outer_rule in ('middle-cline', 'both') and k == 1
        e.check(between(rows, k) == want_o, 'outer table, column %d: rule between its rows %s, written: %s' % (k + 1, between(rows, k), outer_rule), 'hrule-missing' if want_o else 'hrule-extra')
        e.check(_has(rows[0].childNodes[k], 'top') == (outer_rule in ('top', 'both')), 'outer table, column %d: top rule' % (k + 1), 'hrule')
        e.check(not _has(irows[0].childNodes[k], 'top') and not _has(irows[1].childNodes[k], 'bottom'), 'inner table, column %d carries a rule of the outer table' % (k + 1), 'hrule-extra')
        e.check(not _has(rows[1].childNodes[k], 'bottom'), 'outer table, column %d: bottom rule though none was written' % (k + 1), 'hrule-extra')
    # the vertical bar of each specification
    e.check(bool(rows[0].childNodes[0].style.get('border-right')) and bool(irows[0].childNodes[0].style.get('border-right')), 'vertical bars of the two specifications', 'cell-vbar')
    e.nontriv()


SPACERS = {'none': '', 'empty-row': '\\\\ ', 'empty-cells': '&&&\\\\ ', 'skip': '\\\\[2pt] ', 'two-empty': '\\\\ \\\\ '}


def h_spacer(e, spacer, kind, pos):
    """rows without content (a bare \\\\, empty cells) are dropped from the tree: a rule written next to one must still show on the neighbouring kept row"""
    parts = ['\\begin{tabular}{lcrl}p&q&r&s\\\\ ']
    if kind == 'hline':
        rng = (1, 4)
        rule = ['\\hline ']
    else:
        a = e.int('a', 1, 4)
        b = e.int('b', 1, 4)
        e.assume(a <= b)
        rng = (a, b)
        rule = ['\\cline{', api.chr_(a + 48), '-', api.chr_(b + 48), '} ']
    if pos == 'end':
        parts += ['t&u&v&w\\\\ ', SPACERS[spacer]] + rule
    elif pos == 'middle-before':
        parts += [SPACERS[spacer]] + rule + ['t&u&v&w\\\\ ']
    else:
        parts += rule + [SPACERS[spacer], 't&u&v&w\\\\ ']
    parts.append('\\end{tabular}')
    out = _parse(e, parts)
    if out is None:
        return
    tab = out.getElementsByTagName('tabular')[0]
    real = _rows(tab)
    kept = [r for r in real if len(_celltext_row(r))]
    e.check(len(kept) == 2 and [_celltext_row(r) for r in kept] == ['pqrs', 'tuvw'], 'rows with content: %r' % [_celltext_row(r) for r in real], 'table-rows')
    if len(kept) != 2:
        return
    for k in range(4):
        want = api.and_(rng[0] <= k + 1, rng[1] >= k + 1)
        if pos == 'end':
            seen = _has(real[-1].childNodes[k], 'bottom') if len(real[-1].childNodes) == 4 else False
            where = 'below the last row'
        else:
            i0, i1 = [i for i, r in enumerate(real) if any(r is x for x in kept)]
            between = real[i0:i1 + 1]
            seen = any((_has(r.childNodes[k], 'bottom') if r is not between[-1] else False) or (_has(r.childNodes[k], 'top') if r is not between[0] else False)
                       for r in between if len(r.childNodes) == 4)
            where = 'between the two rows'
        e.check(_same(seen, want), 'column %d: rule %s %s is %s (spacer %r)' % (k + 1, _show(rng), where, 'shown' if seen else 'not shown', spacer),
                'hrule-missing' if not seen else 'hrule-extra')
    e.nontriv()


def _celltext_row(r):
    return ''.join(str(c.textContent).strip() for c in r.childNodes)


def _same(flag, cond):
    if isinstance(cond, bool):
        return flag == cond
    return cond if flag else api.not_(cond)


def _show(rng):
    if rng is None:
        return 'none'
    return '%s-%s' % (rng[0] if isinstance(rng[0], int) else 'a', rng[1] if isinstance(rng[1], int) else 'b')


# ------------------------------------------------------------------------------------------- lists
# skeleton: nested python lists;  ('I', [children...]) = an item with text + children;  env kinds i/e/d
LISTS = {
    'flat2': ('itemize', [('I', []), ('I', [])]),
    'flat3-enum': ('enumerate', [('I', []), ('I', []), ('I', [])]),
    'nested-last': ('itemize', [('I', []), ('I', [('enumerate', [('I', []), ('I', [])])]), ('I', [])]),
    'nested-first': ('enumerate', [('I', [('itemize', [('I', [])])]), ('I', [])]),
    'depth3': ('itemize', [('I', [('enumerate', [('I', [('itemize', [('I', []), ('I', [])])]), ('I', [])])]), ('I', [])]),
    'two-nested': ('itemize', [('I', [('itemize', [('I', [])]), ('enumerate', [('I', []), ('I', [])])]), ('I', [])]),
    'desc': ('description', [('T', []), ('T', [])]),
    'desc-brackets': ('description', [('B', []), ('T', [])]),
    'desc-nested': ('description', [('T', [('itemize', [('I', []), ('I', [])])]), ('B', [])]),
    'multipar': ('itemize', [('P', []), ('I', [])]),
    'multipar-nested': ('enumerate', [('P', [('itemize', [('I', [])])]), ('P', [])]),
    'env-in-item': ('itemize', [('Q', []), ('I', [])]),
    'group-in-item': ('itemize', [('G', []), ('I', []), ('G', [])]),
    'declaration-in-item': ('itemize', [('D', []), ('I', []), ('I', [])]),
    'declaration-in-nested-item': ('enumerate', [('I', [('itemize', [('D', []), ('I', [])])]), ('I', [])]),
}


def h_list(e, name, lead=''):
    env, items = LISTS[name]
    n = [0]
    parts = []
    expect = []

    def leaf():
        c = e.char('i%d' % n[0], 97, 122)
        n[0] += 1
        return c

    def gen(env, items):
        parts.append('\\begin{%s}' % env + lead)                 # lead: a blank line / comment between \begin and the first \item
        out = []
        for kind, kids in items:
            a, b = leaf(), leaf()
            term = None
            if kind == 'T':
                t = leaf()
                parts.extend(['\\item[', t, '] '])
                term = [t]
            elif kind == 'B':
                t, u = leaf(), leaf()
                parts.extend(['\\item[', t, ' [', u, '] x] '])
                term = [t, '[', u, ']', 'x']
            else:
                parts.append('\\item ')
            text = [a]
            parts.append(a)
            if kind == 'P':
                parts.extend(['\n\n', b])
                text.append(b)
            if kind == 'Q':
                parts.extend(['\\begin{quote}', b, '\\end{quote}'])
                text.append(b)
            if kind == 'G':                   # a grouped declaration
                parts.extend([' {\\bfseries ', b, '} '])
                text.append(b)
            if kind == 'D':                   # an ungrouped declaration: in force to the end of the list, but it opens no new structure
                parts.extend([' \\bfseries ', b, ' '])
                text.append(b)
            sub = []
            for kenv, kitems in kids:
                sub.append((kenv, gen(kenv, kitems)))
            c = leaf()
            parts.append(c)
            text.append(c)
            out.append({'term': term, 'text': text, 'sub': sub})
        parts.append('\\end{%s}' % env)
        return out
    exp = gen(env, items)
    out = _parse(e, ['\\documentclass{article}\\begin{document}'] + parts + ['\\end{document}'])
    if out is None:
        return
    top = out.getElementsByTagName(env)
    e.check(len(top) >= 1, 'list environment not found', 'list-structure')
    if not top:
        return

    def listsin(node):
        found = []

        def walk(x):
            for c in x.childNodes:
                if getattr(c, 'nodeType', None) != 1:
                    continue
                if c.nodeName in ('itemize', 'enumerate', 'description'):
                    found.append(c)
                else:
                    walk(c)
        walk(node)
        return found

    def own_text(item):
        cs = []

        def walk(x):
            for c in x.childNodes:
                if getattr(c, 'nodeType', None) == 1:
                    if c.nodeName in ('itemize', 'enumerate', 'description'):
                        continue
                    walk(c)
                else:
                    cs.extend(x_ for x_ in api.chars(api.text_of(c)) if not (eq(x_, ' ') or eq(x_, '\n')))
        walk(item)
        return cs

    def cmp(node, envname, want, path):
        e.check(node.nodeName == envname, '%s: <%s> where <%s> was written' % (path, node.nodeName, envname), 'list-structure')
        its = [c for c in node.childNodes if getattr(c, 'nodeName', None) == 'item']
        e.check(len(its) == len(want), '%s: %d items, %d \\item written' % (path, len(its), len(want)), 'item-count' + (':declaration' if name.startswith('declaration-in') else ''))
        if len(its) != len(want):
            return False
        for k, (it, w) in enumerate(zip(its, want)):
            got = own_text(it)
            e.check(len(got) == len(w['text']) and api.all_([eq(a, b) for a, b in zip(got, w['text'])]), '%s item %d: own text differs from what was written up to the next \\item' % (path, k + 1), 'item-text')
            t = it.attributes.get('term') if it.attributes else None
            if w['term'] is None:
                e.check(t is None, '%s item %d has a term' % (path, k + 1), 'item-term')
            else:
                tt = [x_ for x_ in api.chars(api.text_of(t.textContent))] if t is not None else None
                tt = [x_ for x_ in tt if not eq(x_, ' ')] if tt is not None else None
                e.check(tt is not None and len(tt) == len(w['term']) and api.all_([eq(a, b) for a, b in zip(tt, w['term'])]), '%s item %d: term differs from the bracketed text' % (path, k + 1), 'item-term')
            subs = listsin(it)
            e.check(len(subs) == len(w['sub']), '%s item %d contains %d nested lists, %d written inside it' % (path, k + 1, len(subs), len(w['sub'])), 'list-nesting')
            if len(subs) != len(w['sub']):
                return False
            for s, (senv, sw) in zip(subs, w['sub']):
                if not cmp(s, senv, sw, path + '/%d' % (k + 1)):
                    return False
        return True
    cmp(top[0], env, exp, env)
    e.nontriv()


def jobs(tier, seed):
    J = []
    q = tier == 'quick'
    for spec in COLSPECS:
        for mc_row in (0, 1, 2):
            for mc_pos in (0, 1, 2):
                if q and (mc_row + mc_pos + list(COLSPECS).index(spec) + seed) % 2:
                    continue
                J.append(dict(harness='h_spans', params=dict(spec=spec, mc_row=mc_row, mc_pos=mc_pos), label='spans %s row%d pos%d' % (spec, mc_row, mc_pos), no_twin=True))
    for form in ('inside', 'outside', 'pair'):
        J.append(dict(harness='h_colspec', params=dict(form=form), label='colspec *{n} %s' % form, no_twin=form != 'inside'))
    for name in SPECS2:
        J.append(dict(harness='h_colspec2', params=dict(name=name), label='colspec ' + SPECS2[name][0], no_twin=True))
    allslots = list(itertools.product(RULES, repeat=4))
    for i, slots in enumerate(allslots):
        nr = sum(1 for s in slots if s != 'none')
        if nr == 0:
            continue
        if q and (nr > 2 or (i + seed) % 2):
            continue
        for mc in (False, True):
            J.append(dict(harness='h_rules', params=dict(slots=list(slots), mc=mc, empty_first=(i % 3 == 0)), label='rules %s mc=%s' % ('/'.join(slots), mc), no_twin=True))
    for pos in ((0, 0), (0, 1), (1, 1)):
        for ir in ('none', 'hline', 'cline'):
            for orule in ('none', 'top', 'middle-cline', 'both'):
                if q and (pos[0] + pos[1] + ('none', 'hline', 'cline').index(ir) + ('none', 'top', 'middle-cline', 'both').index(orule) + seed) % 2:
                    continue
                J.append(dict(harness='h_nested', params=dict(pos=list(pos), inner_rule=ir, outer_rule=orule), label='nested tabular at %s inner=%s outer=%s' % (pos, ir, orule), no_twin=True))
    for spacer in SPACERS:
        for kind in ('hline', 'cline'):
            for pos in ('end', 'middle-before', 'middle-after'):
                J.append(dict(harness='h_spacer', params=dict(spacer=spacer, kind=kind, pos=pos), label='rule %s next to spacer %s (%s)' % (kind, spacer, pos), no_twin=True))
    for name in LISTS:
        J.append(dict(harness='h_list', params=dict(name=name), label='list ' + name, no_twin=name != 'flat2'))
    for name in ('flat2', 'nested-last', 'desc', 'multipar-nested'):
        for lead, ll in (('\n\n', 'blank line'), ('\n', 'newline'), ('%c\n\n', 'comment and blank line')):
            J.append(dict(harness='h_list', params=dict(name=name, lead=lead), label='list %s, %s before the first item' % (name, ll), no_twin=True))
    for row in (0, 1):
        for k in range(4):
            J.append(dict(harness='h_celldecl', params=dict(row=row, k=k), label='declaration in cell %d of row %d' % (k, row), no_twin=True))
    return J
