"""C07  Parsing loses, duplicates or reorders no text and yields a well-formed tree.

(i)  digestion protocol on the expanded node stream: sectioning nodes whose `level` is a z3 integer in [-2, 6] interleaved with
     text, through the real TeX.parse / SectionUtils.digest / Macro.paragraphs: every node appears exactly once in depth-first
     order, and for every parent/child pair of sectioning nodes child.level > parent.level is entailed by the path condition.
(ii) source level: document skeletons (article/book sectioning to 3 levels incl. starred, paragraphs, font commands and
     declarations, nested lists, description, center/quote, footnote, boxes, tabular, math, verbatim) whose text leaves are
     symbolic characters over {letter, ', `, -, ", non-ASCII}: every leaf occurs exactly once, in source order, in the
     arguments-before-children walk; quotes/dashes substituted in running text and titles but never in verbatim or math;
     parent links lead through the actual containers; sections contain only paragraphs and strictly deeper sections; no
     paragraph inside a paragraph."""
import itertools
from sxv import api
from sxv.api import Src, eq
from sxv.props import common

from plasTeX import TeXDocument, Node
from plasTeX.TeX import TeX
from plasTeX.Tokenizer import Other

PROP = 'C07'
LEVEL = 'model_checking'
FUNCTIONS = ['plasTeX.TeX:TeX.parse', 'plasTeX.TeX:bufferediter', 'plasTeX:Macro.digest', 'plasTeX:Macro.digestUntil', 'plasTeX:Environment.digest',
             'plasTeX.Base.LaTeX.Sectioning:SectionUtils.digest', 'plasTeX.Base.TeX.Text:bgroup.digest', 'plasTeX:Macro.paragraphs', 'plasTeX.TeX:TeX.expandTokens',
             'plasTeX.TeX:TeX.readArgumentAndSource', 'plasTeX.DOM:Node.normalize', 'plasTeX.DOM:Node.appendText', 'plasTeX:NoCharSubEnvironment.normalize',
             'plasTeX.Base.LaTeX.Verbatim:verb.normalize', 'plasTeX.Base.LaTeX.Lists:List.item.digest', 'plasTeX.Base.LaTeX.Lists:List.digest']
RULE = ('one evaluation = one path: (i) one order type of the symbolic levels; (ii) one skeleton x one symbolic leaf x one class of its characters; '
        'non-trivial = >= 2 sectioning nodes / a leaf containing a quote or dash')
BOUNDS = {
    'quick': '(i) streams of 4 sectioning nodes with levels in [-2, 6] + text; (ii) 14 skeletons (incl. a body without any paragraph break, array-like mathematics with an \\mbox in between), (2-11 leaves each; incl. headings inside brace groups / \\begingroup and after open declarations, groups and scripts inside mathematics), one leaf at a time made of a fixed '
             'quote and dash plus 2 symbolic characters over {a, \', `, -, ", e-acute} (so that the same substitution can be needed twice in one run), the other leaves concrete markers; '
             'every sectioning unit hangs under the nearest preceding unit of lower level',
    'thorough': '(i) 6 sectioning nodes; (ii) leaves of 3 symbolic characters and two symbolic leaves at a time',
}
ASSUMPTIONS = ['leaf characters are not TeX-special (they are drawn from letters, quotes, dashes, non-ASCII)',
               'the substitution oracle applies the document\'s ordered replacement table to each maximal text run (a leaf and its concrete neighbours are chosen so that runs do not merge across leaves)',
               'text is compared with blanks removed (the lexer collapses them)']
OUTSIDE = ['documents outside the skeleton grammar', 'leaves longer than 3 characters', 'package macros beyond the base classes']
BUDGET_S = {'quick': 900, 'thorough': 3300}

SUBS = [('``', chr(8220)), ("''", chr(8221)), ('"`', chr(8222)), ('"\'', chr(8220)), ('`', chr(8216)), ("'", chr(8217)), ('---', chr(8212)), ('--', chr(8211))]


def reset():
    common.reset_parser_state()


# ------------------------------------------------------------------------------------------- (i) stream level
def h_stream(e, K):
    doc = TeXDocument()
    items = []
    secs = []
    for i in range(K):
        s = doc.createElement('section')
        s.level = e.int('lvl%d' % i, -2, 6)
        s.contextDepth = 1
        items.append(s)
        secs.append(s)
        items.append(Other(chr(97 + i)))
    tex = TeX(doc)
    tex.input(list(items))
    try:
        out = tex.parse()
    except (IndexError, TypeError, AttributeError, ValueError) as ex:
        e.fail_exception(ex)
        return
    order = []

    def walk(n, parent):
        for c in n.childNodes:
            mine = any(c is x for x in secs)
            if mine:
                order.append(c)
                if parent is not None:
                    e.check(c.level > parent.level, 'a sectioning unit of level %s is nested inside one of level %s' % ('L', 'L'), 'nesting-by-level')
            if getattr(c, 'nodeType', None) == 1:
                e.check(c.parentNode is n, 'parentNode of <%s> is not its container' % c.nodeName, 'parent-link')
                walk(c, c if mine else parent)
    walk(out, None)
    e.check(len(order) == K and all(a is b for a, b in zip(order, secs)), 'sectioning nodes lost, duplicated or reordered (%d of %d found)' % (len(order), K), 'stream-order')
    txt = str(out.textContent)
    e.check(txt == ''.join(chr(97 + i) for i in range(K)), 'text %r after digestion' % txt, 'stream-text')
    # a unit is a sibling or ancestor-sibling of the previous one exactly when its level is not deeper
    for i in range(1, K):
        par = secs[i].parentNode
        nested = par is secs[i - 1]
        e.check(eq_bool(nested, secs[i].level > secs[i - 1].level), 'unit %d is%s nested in the preceding unit although its level is%s deeper' %
                (i, '' if nested else ' not', ' not' if nested else ''), 'nesting-by-level')
    if K >= 2:
        e.nontriv()


def eq_bool(a, b):
    if isinstance(b, bool):
        return a == b
    return b if a else api.not_(b)


# ------------------------------------------------------------------------------------------- (ii) source level
# part kinds: plain markup string | ('L', ctx)  leaf slot with context 'text' | 'title' | 'raw'
def L(ctx='text'):
    return ('L', ctx)


SKELETONS = {
    'art-sections': ('article', ['\\section{', L('title'), '}', L(), ' \\subsection{', L('title'), '}', L(), '\n\n', L(), ' \\subsubsection{', L('title'), '}', L(),
                                 ' \\subsection*{', L('title'), '}', L(), ' \\section{', L('title'), '}', L()]),
    'book-chapters': ('book', ['\\chapter{', L('title'), '}', L(), ' \\section{', L('title'), '}', L(), ' \\subsection{', L('title'), '}', L(),
                               ' \\chapter{', L('title'), '}', L(), ' \\section{', L('title'), '}', L(), ' \\chapter*{', L('title'), '}', L()]),
    'lists': ('article', ['\\section{T}', L(), '\\begin{itemize}\\item ', L(), '\\begin{enumerate}\\item ', L(), '\n\n', L(), '\\item ', L(), '\\end{enumerate}\\item ', L(),
                          '\\end{itemize}', L(), '\\begin{description}\\item[', L('title'), '] ', L(), '\\end{description}', L()]),
    'envs': ('article', ['\\section{T}', L(), '\\begin{center}', L(), '\\end{center}', L(), '\\begin{quote}', L(), '\\end{quote}\\begin{flushleft}', L(), '\n\n', L(),
                         '\\end{flushleft}', L()]),
    'fonts': ('article', ['\\section{T}', L(), ' \\textbf{', L(), ' \\emph{', L(), '}', L(), '} {\\bfseries ', L(), '} {\\itshape ', L(), ' {\\small ', L(), '}}', L(),
                          ' \\mbox{', L(), '}', L()]),
    'declaration-to-heading': ('article', ['\\section{T}', L(), ' \\small ', L(), ' \\subsection{', L('title'), '}', L(), ' \\centering ', L(), ' \\section{', L('title'), '}', L()]),
    'heading-in-group': ('article', ['\\section{T}', L(), ' {\\small ', L(), ' \\subsection{', L('title'), '}', L(), '} ', L(), ' \\begingroup\\itshape ', L(), ' \\section{', L('title'), '}', L(),
                                     '\\endgroup ', L(), ' \\subsection{', L('title'), '}', L()]),
    'footnote-table': ('article', ['\\section{T}', L(), '\\footnote{', L(), '} ', L(), '\\begin{tabular}{ll}', L(), '&', L(), '\\\\ ', L(), '&', L(), '\\end{tabular}', L()]),
    'math-verbatim': ('article', ['\\section{T}', L(), ' $', L('raw'), '$ ', L(), ' \\[', L('raw'), '\\] ', L(), '\\begin{verbatim}', L('raw'), '\\end{verbatim}', L(),
                                  ' \\verb|', L('raw'), '| ', L()]),
    'math-groups': ('article', ['\\section{T}', L(), ' $^{', L('mathgroup'), '}$ ', L(), ' ${', L('mathgroup'), '}$ ', L(), '\\begin{equation}_{', L('mathgroup'), '}\\end{equation}', L()]),
    'single-paragraph': ('article', [L(), ' \\emph{', L(), '} ', L(), ' {\\small ', L(), '}']),          # no paragraph break, no heading anywhere in the body
    'single-environment': ('article', ['\\begin{center}', L(), '\\end{center}']),
    'math-arrays': ('article', ['\\section{T}', L(), '\\begin{eqnarray}', L('mathgroup'), '&&', L('mathgroup'), '\\end{eqnarray}', L(), ' $\\begin{array}{l}', L('mathgroup'), '\\\\ ',
                                L('mathgroup'), '\\end{array}$ ', L(), ' $\\mbox{', L(), '}$ ', L()]),
    'low-units': ('article', ['\\section{T}', L(), ' \\paragraph{', L('title'), '}', L(), ' \\subparagraph{', L('title'), '}', L(), ' \\textbf{', L(), '} \\paragraph{', L('title'), '}', L()]),
    'plain-paragraphs': ('article', [L(), '\n\n', L(), ' \\textit{', L(), '}\n\n', L()]),
}


def subst(s):
    for a, b in SUBS:
        s = s.replace(a, b)
    return s


def h_source(e, skel, which, nch=2):
    cls, parts = SKELETONS[skel]
    doc = TeXDocument()
    src = ['\\documentclass{%s}\\begin{document}' % cls]
    expected = []              # list of (text, ctx)
    k = 0
    symleaf = None
    for p in parts:
        if isinstance(p, tuple):
            if k == which:
                cs = []
                for i in range(nch):
                    c = e.char('t%d' % i, 34, 233)
                    e.assume(e.one_of(c, ['a', "'", '`', '-', '"', '\xe9']))
                    cs.append(c)
                leaf = api.cat(list("x'x--x") + cs + ['y'])          # a quote and a dash are there already: the symbolic characters can ask for the same substitution a second time
                symleaf = cs
            else:
                leaf = 'w%sz' % 'abcdefghijklmnop'[k]
            src.append(leaf)
            expected.append((leaf, p[1]))
            k += 1
        else:
            src.append(p)
    if symleaf is None:
        return
    src.append('\\end{document}')
    chars = []
    for p in src:
        chars.extend(api.chars(p))
    tex = TeX(doc)
    tex.input(Src(chars))
    try:
        out = tex.parse()
    except (KeyError, ValueError, TypeError, IndexError, AttributeError) as ex:
        e.fail_exception(ex)
        return
    # depth-first walk, arguments before children
    texts = []
    secstack = []
    probs = []

    def walk(n):
        a = getattr(n, 'attributes', None)
        if a:
            for key, v in a.items():
                if key == 'self' or v is None or key.startswith('*') or key in ('colspec', 'loc'):
                    continue
                if hasattr(v, 'nodeType') and not (isinstance(v, str) and type(v) is str):
                    visit(v, n, True)
                elif isinstance(v, list):
                    for x in v:
                        if hasattr(x, 'nodeType'):
                            visit(x, n, True)
        for c in n.childNodes:
            visit(c, n, False)

    def visit(c, parent, isarg):
        nt = getattr(c, 'nodeType', None)
        if nt == 1 or nt == 11:
            if c.parentNode is not parent:
                probs.append(('parent-link', 'parentNode of <%s> is <%s>, it is listed under <%s>' % (c.nodeName, getattr(c.parentNode, 'nodeName', None), parent.nodeName)))
            if nt == 1 and getattr(c, 'level', None) == Node.PAR_LEVEL and getattr(parent, 'level', None) == Node.PAR_LEVEL and not isarg:
                probs.append(('par-in-par', 'a paragraph directly inside a paragraph'))
            walk(c)
        elif nt == 3:
            texts.append(api.text_of(c))
    walk(out)
    for sig, msg in probs[:3]:
        e.check(False, msg, sig)
    full = api.cat(texts) if texts else ''
    got = [c for c in api.chars(full) if not (eq(c, ' ') or eq(c, '\n'))]
    want_parts = []
    for leaf, ctx in expected:
        want_parts.append(leaf if ctx in ('raw', 'mathgroup') else subst(leaf))
    # concrete markup that is itself text (section title T, description brackets) is part of the expected walk
    want_full = _interleave(parts, want_parts)
    want = [c for c in api.chars(want_full) if not (eq(c, ' ') or eq(c, '\n'))]
    e.observe(api.cat(got) if got else '')
    e.check(len(got) == len(want), 'the walk yields %d non-blank characters, the source has %d (skeleton %s, symbolic leaf %d)' % (len(got), len(want), skel, which), 'text-count:' + expected[which][1])
    if len(got) == len(want):
        e.check(api.all_([eq(a, b) for a, b in zip(got, want)]), 'text of the depth-first walk differs from the source text in order/substitution (skeleton %s, leaf %d in %s context)'
                % (skel, which, expected[which][1]), 'text-order:' + expected[which][1])
    # sectioning structure
    _check_sections(e, out)
    e.nontriv()


def _interleave(parts, leaves):
    out = []
    k = 0
    for p in parts:
        if isinstance(p, tuple):
            out.append(leaves[k])
            k += 1
        else:
            # visible text of concrete markup: only the literal section title 'T'
            if '{T}' in p:
                out.append('T')
    return api.cat(out)


SECTIONING = {'part': -1, 'chapter': 0, 'section': 1, 'subsection': 2, 'subsubsection': 3, 'paragraph': 4, 'subparagraph': 5}


def _check_sections(e, out):
    # the hierarchy of sectioning units is the one their levels give: each unit hangs under the nearest preceding unit of a lower level, else under the document
    heads = []

    def collect(n):
        for c in n.childNodes:
            if getattr(c, 'nodeType', None) == 1:
                if c.nodeName in SECTIONING:
                    heads.append(c)
                collect(c)
    collect(out)
    for i, h in enumerate(heads):
        want = None
        for g in reversed(heads[:i]):
            if g.level < h.level:
                want = g
                break
        par = h.parentNode
        if want is None:
            e.check(getattr(par, 'nodeName', None) == 'document', '<%s> (unit %d) hangs under <%s>, not under the document' % (h.nodeName, i, getattr(par, 'nodeName', None)), 'section-parent')
        else:
            e.check(par is want, '<%s> (unit %d) hangs under <%s>, not under the preceding <%s>' % (h.nodeName, i, getattr(par, 'nodeName', None), want.nodeName), 'section-parent')

    def walk(n):
        for c in n.childNodes:
            if getattr(c, 'nodeType', None) != 1:
                continue
            if c.nodeName in SECTIONING:
                for k in c.childNodes:
                    if getattr(k, 'nodeType', None) != 1:
                        e.check(False, 'text directly inside <%s> (not in a paragraph)' % c.nodeName, 'section-children')
                        continue
                    if k.nodeName in SECTIONING:
                        e.check(k.level > c.level, '<%s> nested inside <%s>' % (k.nodeName, c.nodeName), 'nesting-by-level')
                    else:
                        e.check(k.level == Node.PAR_LEVEL, '<%s> directly inside <%s> (neither paragraph nor deeper unit)' % (k.nodeName, c.nodeName), 'section-children')
            walk(c)
    walk(out)


def jobs(tier, seed):
    J = []
    q = tier == 'quick'
    for K in ((2, 3, 4) if q else (2, 3, 4, 5, 6)):
        J.append(dict(harness='h_stream', params=dict(K=K), label='stream K=%d' % K, no_twin=K > 3))
    for skel, (cls, parts) in SKELETONS.items():
        n = sum(1 for p in parts if isinstance(p, tuple))
        for w in range(n):
            J.append(dict(harness='h_source', params=dict(skel=skel, which=w, nch=2 if q else 3), label='source %s leaf %d' % (skel, w), no_twin=w > 0))
    return J
