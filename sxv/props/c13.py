"""C13  Rendering splits the document into files without losing or repeating content.

The real base Renderer (whose default/text hooks are `str`) is run end to end on parsed document skeletons: Renderer.render
(split-level / template interpretation), cacheFilenames, Renderable.filename, Renderable.__str__ file routing, Filenames, cleanup;
only open() is captured in memory.  Symbolic: the split level (z3 integer in [-10, 6]) and the characters of section titles
(for $title templates)."""
import os
from sxv import api
from sxv.api import eq
from sxv.props import common, render_common as RC

import plasTeX.Renderers as R
from plasTeX.DOM import Node

PROP = 'C13'
LEVEL = 'model_checking'
FUNCTIONS = ['plasTeX.Base.LaTeX.Sectioning:SectionUtils.footnotes', 'plasTeX.Filenames:Filenames.addExtension', 'plasTeX.Renderers:Renderable.filename', 'plasTeX.Renderers:Renderable.__str__', 'plasTeX.Renderers:Renderer.cacheFilenames', 'plasTeX.Renderers:Renderer.render',
             'plasTeX.Renderers:Renderer.cleanup', 'plasTeX.Renderers:mixin', 'plasTeX.Renderers:unmix', 'plasTeX.Filenames:Filenames._newFilename', 'plasTeX.Filenames:Filenames.parseFilenames']
RULE = ('one evaluation = one path = one document skeleton x filename template x one class of the split level (and of the title characters); '
        'non-trivial = at least two files are produced')
BOUNDS = {
    'quick': '4 skeletons (article to 3 levels with starred units and a footnote; book with chapters; flat; sections only) x 6 filename templates (default, static list + $num, '
             'bracket without blank, blank without bracket, $title alternatives, a single file name) x split level as an unbounded-in-range z3 integer in [-10, 6]; '
             'the first two titles made of 2 symbolic characters (over {a, blank, (, |} and {a, blank}: equal titles, titles of forbidden characters only); renderer file extension '
             '.html / .xhtml / none; footnotes at three depths: each is listed by exactly the unit that produces the file holding its mark',
    'thorough': 'as quick with titles of 3 symbolic characters and two more skeletons',
}
ASSUMPTIONS = ['the renderer is the real base Renderer (no templates: every element falls back to its default hook), so what is checked is the Python-level file routing; '
               'theme layouts and footnote gathering by templates are outside the claim', 'file output is captured by replacing open() in the renderer module']
OUTSIDE = ['Jinja2/ZPT templates', 'images']
BUDGET_S = {'quick': 900, 'thorough': 3300}

BAD = ': #$%^&*!~`"\'=?/{}[]()|<>;\\,.'
# (class, [(command, starred, marker words...)])   level: chapter 0, section 1, subsection 2, subsubsection 3
SKELETONS = {
    'article3': ('article', [('-', 'm0'), ('section', 'm1', 'FNa'), ('subsection', 'm2', 'FNb'), ('subsection*', 'm3'), ('section', 'm4', 'FTd', 'FMe'), ('subsubsection', 'm5', 'FNc'), ('section*', 'm6', 'FTf', 'FTg')]),
    'book': ('book', [('-', 'm0'), ('chapter', 'm1'), ('section', 'm2'), ('subsection', 'm3', 'FNa'), ('chapter', 'm4'), ('section', 'm5'), ('chapter*', 'm6', 'FNb')]),
    'labelled': ('article', [('-', 'm0'), ('section', 'm1', 'LBindex'), ('section', 'm2', 'LBtoc'), ('subsection', 'm3', 'LBsect001'), ('section', 'm4')]),      # labels that equal static / numbered names
    'flat': ('article', [('-', 'm0'), ('-', 'm1')]),
    'sections': ('article', [('section', 'm1'), ('section', 'm2'), ('section', 'm3')]),
}
LEVELS = {'chapter': 0, 'section': 1, 'subsection': 2, 'subsubsection': 3}
TEMPLATES = {
    'default': 'index [$id, sect$num(4)]',
    'static-num': 'index toc sect$num(3)',
    'bracket-noblank': '[$id,sect$num(4)]',
    'blank-nobracket': 'index sect$num(3)',
    'title': 'index [$title, sect$num]',
    'single': 'onefile',
}


EXT = {'default': '.html', 'title': '.html', 'static-num': '.xhtml'}      # the renderer's file extension, per template (others: none)


def reset():
    RC.reset()


class Rec(R.Renderer):
    """base renderer that records, while the renderable mixin is active, which nodes got which file"""

    def cleanup(self, document, files, postProcess=None):
        self.record = []

        def walk(n):
            for c in n.childNodes:
                if getattr(c, 'nodeType', None) == 1:
                    if c.nodeName in LEVELS or c.nodeName == 'document':
                        self.record.append((c, c.filename))
                    walk(c)
        walk(document)
        docs = [f for n, f in self.record if n.nodeName == 'document']
        self.docfile = docs[0] if docs else None
        # footnote texts are handed to the templates by the unit that produces the file: who lists which footnote
        self.footnotes = []
        holders = [n for n, f in self.record if f is not None]
        for fn in document.userdata.get('footnotes', []):
            h = fn.parentNode
            while h is not None and getattr(h, 'filename', None) is None:
                h = h.parentNode
            self.footnotes.append((fn.textContent.strip(), h, [n for n in holders if any(x is fn for x in n.footnotes)]))
        return R.Renderer.cleanup(self, document, files, postProcess=postProcess)


def _fnword(m):
    return 'fnword' + m[2:]


def h_split(e, skel, tmpl, ntitle=2):
    cls, units = SKELETONS[skel]
    split = e.int('split', -10, 6)
    titles = []
    parts = ['\\documentclass{%s}\\begin{document}' % cls]
    expect_units = []          # (name, level, starred, [markers], title)
    cur = None
    k = 0
    for u in units:
        cmd = u[0]
        marks = list(u[1:])
        if cmd == '-':
            parts.append(' '.join(m for m in marks) + ' ')
            if cur is None:
                expect_units.append(['document', None, False, [m for m in marks], None])
                cur = expect_units[-1]
            else:
                cur[3].extend(marks)
            continue
        starred = cmd.endswith('*')
        name = cmd.rstrip('*')
        if tmpl == 'title' and k <= 1:
            # the first two titles are symbolic (the second over a smaller alphabet): equal titles, titles made of forbidden characters only
            cs = []
            for i in range(ntitle):
                c = e.char('t%d_%d' % (k, i), 32, 124)
                e.assume(e.one_of(c, 'a (|' if k == 0 else 'a '))
                cs.append(c)
            title = api.cat(['T'] + cs)
        else:
            title = 'T%d' % k
        k += 1
        if cur is None:
            expect_units.append(['document', None, False, [], None])
        body = []
        for m in marks:
            if m.startswith('LB'):
                body.insert(0, '\\label{%s}' % m[2:])
            elif m.startswith('FT'):
                body.append('\\footnotetext{%s}' % _fnword(m))          # a footnote text without a mark of its own
            elif m.startswith('FM'):
                body.append('\\footnotemark w \\footnotetext{%s}' % _fnword(m))
            elif m.startswith('FN'):
                body.append('\\footnote{%s}' % _fnword(m))
            else:
                body.append(m + ' ')
        parts += ['\\%s{' % cmd, title, '}'] + body
        cur = [name, LEVELS[name], starred, [_fnword(m) if m[:2] in ('FN', 'FT', 'FM') else m for m in marks if not m.startswith('LB')], title]
        expect_units.append(cur)
    parts.append('\\end{document}')
    try:
        doc, out = RC.parse(e, parts)
    except (KeyError, ValueError, TypeError, IndexError, AttributeError) as ex:
        e.fail_exception(ex)
        return
    doc.config['files']['split-level'] = split
    doc.config['files']['filename'] = TEMPLATES[tmpl]
    r = Rec()
    ext = r.fileExtension = EXT.get(tmpl, '')
    d = RC.workdir()
    cwd = os.getcwd()
    os.chdir(d)
    try:
        cap = RC.render(doc, r, d)
    except (KeyError, ValueError, TypeError, IndexError, AttributeError) as ex:
        e.fail_exception(ex)
        return
    finally:
        os.chdir(cwd)
        RC.cleanup(d)
    single = tmpl == 'single'
    rec = r.record
    secs = [x for x in rec if x[0].nodeName != 'document']
    exp_secs = [u for u in expect_units if u[0] != 'document']
    e.check(len(secs) == len(exp_secs), 'sectioning units rendered: %d, written: %d' % (len(secs), len(exp_secs)), 'structure')
    if len(secs) != len(exp_secs):
        return
    e.check(r.docfile is not None, 'the document itself produces no file', 'file-of-document')
    # which unit opens a file
    files_of = {}
    cur_file = r.docfile
    stack = []                 # (level, file) of enclosing units
    allnames = [r.docfile]
    expected_content = {r.docfile: list(expect_units[0][3])}
    anc = [(None, r.docfile)]
    for (node, fname), u in zip(secs, exp_secs):
        name, level, starred, marks, title = u
        should = (not single) and bool(level <= split)
        e.check((fname is not None) == should, '<%s> (level %d) %s a file of its own at split level %s with template %r'
                % (name, level, 'gets' if fname is not None else 'does not get', 'S', TEMPLATES[tmpl]), 'file-iff-level')
        while len(anc) > 1 and anc[-1][0] >= level:
            anc.pop()
        if fname is not None:
            allnames.append(fname)
            expected_content[fname] = ['T'] if False else []
            anc.append((level, fname))
        else:
            anc.append((level, anc[-1][1]))
        expected_content.setdefault(anc[-1][1], []).extend(marks)
    # names: pairwise distinct, no forbidden characters
    for i in range(len(allnames)):
        for j in range(i + 1, len(allnames)):
            e.check(api.not_(eq(allnames[i], allnames[j])), 'two units share the output file name', 'filename-duplicate')
    for nm in allnames:
        cs = api.chars(nm)
        if ext:
            e.check(len(cs) > len(ext) and api.all_([eq(a, b) for a, b in zip(cs[-len(ext):], ext)]), 'output file name lacks the renderer\'s extension %r' % ext, 'filename-extension')
            cs = cs[:-len(ext)]
        e.check(api.all_([e.none_of(c, BAD) for c in cs]), 'output file name contains a forbidden character', 'filename-badchar')
    # every marker exactly once, in its file, in document order
    got_files = {(os.path.basename(k) if isinstance(k, str) else k): v for k, v in cap.files.items()}
    for fname, marks in expected_content.items():
        key = fname if isinstance(fname, str) else None
        if key is None:
            # symbolic name: find the captured file by equality
            hits = [k for k in got_files if eq(fname, k)]
            e.check(len(hits) == 1, 'the file of a unit was not written', 'file-missing')
            if len(hits) != 1:
                return
            key = hits[0]
        e.check(key in got_files, 'file %r was not written (written: %s)' % (key, sorted(got_files)), 'file-missing')
        if key not in got_files:
            return
        content = got_files[key]
        text = content if isinstance(content, str) else None
        if text is None:
            text = ''.join(c if isinstance(c, str) else '?' for c in api.chars(content))
        pos = 0
        for m in marks:
            p = text.find(m, pos)
            e.check(p >= 0, 'marker %r is missing from (or out of order in) file %r: %r' % (m, key, text[:80]), 'content-missing')
            if p < 0:
                return
            pos = p + len(m)
    alltext = ' '.join((v if isinstance(v, str) else ''.join(c if isinstance(c, str) else '?' for c in api.chars(v))) for v in got_files.values())
    for u in expect_units:
        for m in u[3]:
            e.check(alltext.count(m) == 1, 'marker %r occurs %d times in the output files' % (m, alltext.count(m)), 'content-repeated' if alltext.count(m) > 1 else 'content-missing')
    e.check(len(got_files) == len(allnames), '%d files written, %d units open a file' % (len(got_files), len(allnames)), 'file-count')
    # every footnote is listed by exactly the unit that produces the file its mark is in
    nfn = sum(1 for u in expect_units for m in u[3] if m.startswith('fnword'))
    e.check(len(r.footnotes) == nfn, '%d footnotes recorded, %d written' % (len(r.footnotes), nfn), 'footnote-lost')
    for word, holder, listed_by in r.footnotes:
        e.check(holder is not None and len(listed_by) == 1 and listed_by[0] is holder, 'footnote %r is listed by %d file-producing units (%s); its mark is in the file of <%s>'
                % (word, len(listed_by), ', '.join(n.nodeName for n in listed_by), None if holder is None else holder.nodeName), 'footnote-lost' if not listed_by else 'footnote-repeated')
    e.observe([list(got_files), len(got_files)])
    if len(allnames) >= 2:
        e.nontriv()


def h_stable(e, skel, tmpl):
    """the same input rendered twice gives the same file names"""
    names = []
    for run in range(2):
        cls, units = SKELETONS[skel]
        parts = ['\\documentclass{%s}\\begin{document}' % cls]
        for k, u in enumerate(units):
            if u[0] == '-':
                parts.append(' '.join(u[1:]) + ' ')
            else:
                parts += ['\\%s{Title %d}' % (u[0], k)] + [m + ' ' for m in u[1:] if m[:2] not in ('FN', 'FT', 'FM', 'LB')]
        parts.append('\\end{document}')
        doc, out = RC.parse(e, parts)
        split = e.int('split', -10, 6)
        doc.config['files']['split-level'] = split
        doc.config['files']['filename'] = TEMPLATES[tmpl]
        r = Rec()
        d = RC.workdir()
        cwd = os.getcwd()
        os.chdir(d)
        try:
            cap = RC.render(doc, r, d)
        finally:
            os.chdir(cwd)
            RC.cleanup(d)
        names.append([f for n, f in r.record])
    e.check(names[0] == names[1], 'file names differ between two runs of the same input: %r vs %r' % (names[0], names[1]), 'filename-unstable')
    e.nontriv()


def jobs(tier, seed):
    J = []
    q = tier == 'quick'
    for skel in SKELETONS:
        for tmpl in TEMPLATES:
            J.append(dict(harness='h_split', params=dict(skel=skel, tmpl=tmpl, ntitle=2 if q else 3), label='split %s %s' % (skel, tmpl), no_twin=(skel, tmpl) != ('article3', 'default')))
    for tmpl in ('default', 'title', 'static-num'):
        J.append(dict(harness='h_stable', params=dict(skel='article3', tmpl=tmpl), label='stable %s' % tmpl, no_twin=True))
    return J
