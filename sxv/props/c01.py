"""C01  Tokenization follows TeX's lexical rules for every input and catcode table.

Real code symbolically executed: Tokenizer.iterchars/pushChar/readline/__iter__, Context.whichCode/catcode/
setVerbatimCatcodes/get_let, TeX.input/itertokens.  Oracle: reference lexer + reference classifier below."""
import string
from sxv import api
from sxv.api import ord_, chr_, Src, text_of, eq

from sxv.props import common
from plasTeX import TeXDocument
from plasTeX.TeX import TeX
from plasTeX import Tokenizer as TK

PROP = 'C01'
LEVEL = 'model_checking'
FUNCTIONS = ['plasTeX.Tokenizer:Tokenizer.iterchars', 'plasTeX.Tokenizer:Tokenizer.__iter__', 'plasTeX.Tokenizer:Tokenizer.pushChar',
             'plasTeX.Tokenizer:Tokenizer.readline', 'plasTeX.Context:Context.whichCode', 'plasTeX.Context:Context.catcode',
             'plasTeX.Context:Context.setVerbatimCatcodes', 'plasTeX.Context:Context.get_let', 'plasTeX.TeX:TeX.input',
             'plasTeX.TeX:TeX.itertokens', 'plasTeX.encoding:stringletters']
RULE = ('one evaluation = one explored path = one equivalence class of input strings (by category of every character, '
        'equality with the preceding ^, ^^-decoding range, newline-ness) under one catcode table; non-trivial = the path '
        'exercises at least one of: control sequence, ^^ decoding, comment, paragraph, blank skipping, ignored/invalid char, '
        'active char, or yields >= 2 tokens')
BOUNDS = {
    'quick': 'all strings of L<=3 arbitrary code points (0..0x10FFFF) under the default table; L<=3 under @-letter and verbatim; '
             'L<=2 under every table reached from the default by one \\catcode(ch,code) with ch in a 7-character alphabet and code 0..15 symbolic; '
             'lexer-state prefixes x L<=2; a category code (one of 7 characters, code 0..15 symbolic) reassigned between the first and the second token request of 7 prefixes x L<=1',
    'thorough': 'L<=4 default; L<=4 @-letter, verbatim; L<=3 with one reassignment (7-char alphabet x 16 codes), L<=2 with the 13-char alphabet; two reassignments: '
                '7-char alphabet at L<=1, one character twice at L<=2; 13 lexer-state prefixes x L<=3 and the 14 comment-terminated ones x L<=2; one \\let alias table; mid-stream reassignment after the first or second token of 12 prefixes x L<=1 and after the first token of 4 prefixes x L<=2',
}
ASSUMPTIONS = ['the StringIO source is replaced by a 10-line file-like stub serving one character per read(1)',
               'Token.__eq__/__ne__/__lt__/__str__ are re-stated in the SymTok proxy (validated against the real classes at the start of every run)',
               'conventions of DESIGN.md section 3 (C01): end-of-line char is \\n; \\ + EOL yields a space token and state S; consecutive \\par collapse; '
               'only single-character ^^X (+-64) is decoded, for every code point, not re-examined recursively; active characters are delivered as active::c; '
               'no blank skipping after control symbols incl. control space (documented hack in the source); a category-5 character other than \\n '
               'discards the rest of the physical line only in state N']
OUTSIDE = ['inputs longer than the bound other than through the state-prefix (one-step) runs', 'tables more than two reassignments from a base table',
           'file decoding (bytes -> str)', 'hex ^^ab notation']
BUDGET_S = {'quick': 900, 'thorough': 3300}

LETTERS = string.ascii_letters
BASE = {
    'default': {0: '\\', 1: '{', 2: '}', 3: '$', 4: '&', 5: '\n', 6: '#', 7: '^', 8: '_', 9: '\x00', 10: ' \t\r\f', 11: LETTERS, 13: '~', 14: '%'},
    'atletter': {0: '\\', 1: '{', 2: '}', 3: '$', 4: '&', 5: '\n', 6: '#', 7: '^', 8: '_', 9: '\x00', 10: ' \t\r\f', 11: LETTERS + '@', 13: '~', 14: '%'},
    'verbatim': {11: LETTERS},
}
CLASSES = {0: 'EscapeSequence', 1: 'BeginGroup', 2: 'EndGroup', 3: 'MathShift', 4: 'Alignment', 6: 'Parameter', 7: 'Superscript',
           8: 'Subscript', 10: 'Space', 11: 'Letter', 12: 'Other'}
ALPHA7 = ['a', '@', '\\', '%', ' ', '\n', '^']
ALPHA13 = ALPHA7 + ['{', '~', '\x00', 'Z', '1', '\xe9']
STATE_PREFIXES = ['', 'x', 'x ', '\\ab', '\\ab ', '\\%', 'x\n', '\n\n', '%c\n', '^', '\\', 'x^^', '~']
# (lexer state N, last delivered token = t) reached without an intervening space token:  [par] t %<newline>
for _t in ['ab', '1', '\\ab', '\\%', '~', '{', '$']:
    STATE_PREFIXES += [_t + '%\n', 'x\n\n' + _t + '%\n']


# a \catcode assignment takes effect between two token requests: text that follows the first token(s) of these prefixes
MID_PREFIXES = ['\\ab ', '\\ab', 'x ', 'x', '\\%', 'x\n', '\\ab\t', '\\ab  ', '\\% ', '~ ', '1%', '\\ab\n']
MID_ALPHA = [' ', 'a', '%', '\\', '\n', '\t', '^']


def reset():
    pass


def ref_cat(e, c, table, overrides):
    for ch, code in reversed(overrides):
        if eq(c, ch):
            return code
    sets = BASE[table]
    for code in (0, 1, 2, 3, 4, 5, 6, 7, 8, 9, 10, 13, 14, 11):
        s = sets.get(code)
        if s and e.one_of(c, s):
            return code
    return 12


def ref_lex(e, chars, cat):
    """reference lexer: TeX's rules with the conventions listed in ASSUMPTIONS; returns [(catcode, [chars])]"""
    return list(ref_lex_iter(e, chars, cat))


def ref_lex_iter(e, chars, cat):
    """the same lexer delivering one token per request: a character is categorised when it is read, never earlier, so `cat` may
    change between two requests (the character that ends a control word is put back and categorised again by the next request)"""
    buf = list(chars)
    out = []

    def is_nl(c):
        return bool(eq(c, '\n'))

    def discard_line():
        while buf:
            c = buf.pop(0)
            if is_nl(c):
                break

    def event(keep_ignored=False):
        """next (category, character); ignored / invalid characters are dropped - except while a control sequence name is being read,
        where (TeX) any non-letter ends a control word and the very first character names a control symbol whatever its category"""
        while buf:
            ch = buf.pop(0)
            code = cat(ch)
            if code == 7 and len(buf) >= 2 and bool(eq(buf[0], ch)):
                x = buf[1]
                del buf[:2]
                n = ord_(x)
                ch = chr_(n - 64) if n >= 64 else chr_(n + 64)
                code = cat(ch)
                e.tag('caret-decoded')
            if code in (9, 15) and not keep_ignored:
                e.tag('dropped-char')
                continue
            return code, ch
        return None

    state = 'N'
    while True:
        ev = event()
        if ev is None:
            break
        code, ch = ev
        if code in (11, 12):
            out.append((code, [ch]))
            yield out[-1]
            state = 'M'
        elif code == 10:
            if state in 'SN':
                e.tag('blank-skipped')
                continue
            state = 'S'
            out.append((10, [' ']))
            yield out[-1]
        elif code == 5:
            if state == 'S':
                state = 'N'
                continue
            if state == 'M':
                out.append((10, [' ']))
                yield out[-1]
                state = 'N'
                e.tag('eol-space')
            else:
                if not is_nl(ch):
                    discard_line()
                if out and out[-1][0] == 0 and out[-1][1] == list('par'):
                    continue
                out.append((0, list('par')))
                yield out[-1]
                e.tag('par')
        elif code == 0:
            state = 'M'
            ev2 = event(keep_ignored=True)
            if ev2 is None:
                out.append((0, []))
                yield out[-1]
            else:
                c2, ch2 = ev2
                if c2 == 11:
                    word = [ch2]
                    while True:
                        ev3 = event(keep_ignored=True)
                        if ev3 is None:
                            break
                        if ev3[0] == 11:
                            word.append(ev3[1])
                        else:
                            if ev3[0] not in (9, 15):
                                buf.insert(0, ev3[1])      # an ignored character ends the word and is dropped
                            else:
                                e.tag('dropped-char')
                            break
                    out.append((0, word))
                    yield out[-1]
                    state = 'S'
                    e.tag('ctrl-word')
                elif c2 == 5:
                    out.append((10, [' ']))
                    yield out[-1]
                    state = 'S'
                else:
                    out.append((0, [ch2]))
                    yield out[-1]
                    e.tag('ctrl-symbol')
        elif code == 14:
            discard_line()
            state = 'N'
            e.tag('comment')
        elif code == 13:
            out.append((0, list('active::') + [ch]))
            yield out[-1]
            state = 'M'
            e.tag('active')
        else:
            out.append((code, [ch]))
            yield out[-1]
            state = 'M'


def h_lex(e, L, table='default', re_alpha=None, nre=0, prefix='', lets=False, re_codes=None, re_codes2=None):
    doc = TeXDocument()
    ctx = doc.context
    if table == 'atletter':
        ctx.catcode('@', 11)
    elif table == 'verbatim':
        ctx.setVerbatimCatcodes()
    overrides = []
    for k in range(nre):
        ch = re_alpha[e.choice(len(re_alpha), 'rech%d' % k)]
        code = e.int('recode%d' % k, 0, 15)
        if re_codes is not None:
            e.assume(e.one_of(code, re_codes))
        if re_codes2 is not None and k == 1:
            e.assume(e.one_of(code, re_codes2))
        ctx.catcode(ch, code)
        code = e.concretize(code.z) if e.symbolic else code
        overrides.append((ch, code))
    if lets:
        # one \let alias: \foo -> the character token Other('!')
        ctx.let(TK.EscapeSequence('ab'), TK.Other('!'))
    chars = list(prefix) + [e.char('c%d' % i) for i in range(L)]
    tex = TeX(doc)
    tex.input(Src(chars))
    got = []
    try:
        steps = 0
        for tok in tex.itertokens():
            got.append(tok)
            steps += 1
            if steps > 4 * len(chars) + 8:
                e.check(False, 'tokenizer does not terminate (more than 4L+8 tokens)', 'nontermination')
    except (TypeError, ValueError, IndexError, AttributeError, KeyError, RecursionError, UnicodeError) as ex:
        e.fail_exception(ex)
    exp = ref_lex(e, chars, lambda c: ref_cat(e, c, table, overrides))
    if lets:
        exp = [((12, ['!']) if (c == 0 and t == list('ab')) else (c, t)) for c, t in exp]
    e.observe([[t.catcode, text_of(t)] for t in got])
    e.check(len(got) == len(exp), 'token count: got %d expected %d' % (len(got), len(exp)), 'stream-length')
    allok = True
    for tok, (code, txt) in zip(got, exp):
        e.check(tok.catcode == code, 'token category: got %r expected %r' % (tok.catcode, code), 'token-category')
        e.check(api.typeof(tok).__name__ == CLASSES[code], 'token class %s does not denote category %d' % (api.typeof(tok).__name__, code),
                'token-class')
        e.check(eq(text_of(tok), api.cat(txt)), 'token text differs (category %d)' % code, 'token-text')
    if len(exp) >= 2 or e.symbolic and (e.path_tags - {'blank-skipped'}):
        e.nontriv()


def h_midstream(e, L, prefix, re_alpha, after):
    """a category code is reassigned between two token requests: every character read afterwards has its new category"""
    doc = TeXDocument()
    ctx = doc.context
    overrides = []
    ch = re_alpha[e.choice(len(re_alpha), 'rech')]
    code = e.int('recode', 0, 15)
    chars = list(prefix) + [e.char('c%d' % i) for i in range(L)]
    tex = TeX(doc)
    tex.input(Src(chars))
    got = []
    ref = ref_lex_iter(e, chars, lambda c: ref_cat(e, c, 'default', overrides))
    exp = []
    done = [False]

    def reassign():
        ctx.catcode(ch, code)
        overrides.append((ch, e.concretize(code.z) if e.symbolic else code))
        done[0] = True
    try:
        it = tex.itertokens()
        while True:
            if len(got) == after and not done[0]:
                reassign()
            try:
                w = next(ref)
            except StopIteration:
                w = None
            try:
                tok = next(it)
            except StopIteration:
                tok = None
            if tok is not None:
                got.append(tok)
            if w is not None:
                exp.append(w)
            if tok is None and w is None:
                break
            if len(got) > 4 * len(chars) + 8:
                e.check(False, 'tokenizer does not terminate (more than 4L+8 tokens)', 'nontermination')
                break
    except (TypeError, ValueError, IndexError, AttributeError, KeyError, RecursionError, UnicodeError) as ex:
        e.fail_exception(ex)
        return
    e.observe([[t.catcode, text_of(t)] for t in got])
    e.check(len(got) == len(exp), 'token count after a mid-stream \\catcode change: got %d expected %d' % (len(got), len(exp)), 'stream-length:midstream')
    for tok, (c, txt) in zip(got, exp):
        e.check(tok.catcode == c, 'token category after a mid-stream \\catcode change: got %r expected %r' % (tok.catcode, c), 'token-category:midstream')
        e.check(eq(text_of(tok), api.cat(txt)), 'token text differs (category %d)' % c, 'token-text:midstream')
    if done[0] and len(exp) > after:
        e.nontriv()


def jobs(tier, seed):
    J = []
    if tier == 'quick':
        J.append(dict(harness='h_lex', params=dict(L=3), split=14, label='default L=3'))
        J.append(dict(harness='h_lex', params=dict(L=3, table='atletter'), split=14, label='atletter L=3'))
        J.append(dict(harness='h_lex', params=dict(L=3, table='verbatim'), split=4, label='verbatim L=3'))
        J.append(dict(harness='h_lex', params=dict(L=2, re_alpha=ALPHA7, nre=1), split=30, label='1 reassignment L=2'))
        J.append(dict(harness='h_lex', params=dict(L=3, re_alpha=['a'], nre=1, re_codes=[0, 7, 14]), split=30, label="'a' reassigned to escape/superscript/comment L=3"))
        J.append(dict(harness='h_lex', params=dict(L=2, re_alpha=['a'], nre=2, re_codes2=[12, 11]), split=48, label='same character reassigned twice (then other/letter) L=2'))
        for p in STATE_PREFIXES:
            J.append(dict(harness='h_lex', params=dict(L=2, prefix=p), label='state-prefix %r L=2' % p))
        J.append(dict(harness='h_lex', params=dict(L=2, prefix='\\ab', lets=True), label='let alias L=2'))
        for p in MID_PREFIXES[:7]:
            J.append(dict(harness='h_midstream', params=dict(L=1, prefix=p, re_alpha=MID_ALPHA, after=1), label='mid-stream reassignment after %r L=1' % p, no_twin=p != '\\ab '))
    else:
        J.append(dict(harness='h_lex', params=dict(L=4), split=28, label='default L=4'))
        J.append(dict(harness='h_lex', params=dict(L=4, table='atletter'), split=28, label='atletter L=4'))
        J.append(dict(harness='h_lex', params=dict(L=4, table='verbatim'), split=4, label='verbatim L=4'))
        J.append(dict(harness='h_lex', params=dict(L=3, re_alpha=ALPHA7, nre=1), split=34, label='1 reassignment L=3'))
        J.append(dict(harness='h_lex', params=dict(L=2, re_alpha=ALPHA13, nre=1), split=34, label='1 reassignment (13-char alphabet) L=2'))
        J.append(dict(harness='h_lex', params=dict(L=1, re_alpha=ALPHA7, nre=2), split=52, label='2 reassignments (7-char alphabet) L=1'))
        J.append(dict(harness='h_lex', params=dict(L=2, re_alpha=['a'], nre=2), split=52, label='same character reassigned twice L=2'))
        for i, p in enumerate(STATE_PREFIXES):
            L = 3 if i < 13 else 2               # the 14 "(par) token %newline" prefixes keep the quick bound
            J.append(dict(harness='h_lex', params=dict(L=L, prefix=p), split=14, label='state-prefix %r L=%d' % (p, L)))
        J.append(dict(harness='h_lex', params=dict(L=3, prefix='\\ab', lets=True), label='let alias L=3'))
        J.append(dict(harness='h_lex', params=dict(L=3, lets=True), label='let alias free L=3'))
        for p in MID_PREFIXES:
            for after in (1, 2):
                J.append(dict(harness='h_midstream', params=dict(L=1, prefix=p, re_alpha=MID_ALPHA, after=after), split=14, label='mid-stream reassignment after token %d of %r L=1' % (after, p), no_twin=True))
        for p in MID_PREFIXES[:4]:
            J.append(dict(harness='h_midstream', params=dict(L=2, prefix=p, re_alpha=MID_ALPHA, after=1), split=14, label='mid-stream reassignment after token 1 of %r L=2' % p, no_twin=True))
    return J
