"""C02  Macro definitions expand exactly as TeX's substitution rules say.

Programs of a small macro language are generated as token lists, rendered to LaTeX *source text* and run through the real
tokenizer, TeX.__iter__, DefCommand/newcommand/let/csname/expandafter, Definition.invoke, NewCommand.invoke, expandDef and
Context.newdef/newcommand/let.  Every literal payload character is symbolic (a..z), so "which argument text lands where" is
tracked by the solver: a swap, loss or duplication is a z3-visible inequality.  Oracle: an independent reference expander
(textbook substitution) run on the same token list."""
import itertools
from sxv import api
from sxv.api import Src, eq
from sxv.props import common

from plasTeX import TeXDocument
from plasTeX.TeX import TeX

PROP = 'C02'
LEVEL = 'model_checking'
FUNCTIONS = ['plasTeX:expandDef', 'plasTeX:Definition.invoke', 'plasTeX:NewCommand.invoke', 'plasTeX.Base.TeX.Primitives:DefCommand.invoke', 'plasTeX.Base.TeX.Primitives:let.invoke',
             'plasTeX.Base.TeX.Primitives:csname.invoke', 'plasTeX.Base.TeX.Primitives:expandafter.invoke', 'plasTeX.Base.LaTeX.Definitions:newcommand.invoke',
             'plasTeX.Context:Context.newdef', 'plasTeX.Context:Context.newcommand', 'plasTeX.Context:Context.let', 'plasTeX.Context:Context.__getitem__',
             'plasTeX.TeX:TeX.__iter__', 'plasTeX.TeX:TeX.pushTokens', 'plasTeX.TeX:TeX.readArgument', 'plasTeX.TeX:TeX.readToken', 'plasTeX.TeX:TeX.readGrouping']
RULE = ('one evaluation = one path = one program shape x one class of payload characters; non-trivial = the program calls a macro with at least one argument')
BOUNDS = {
    'quick': '\\def with 9 parameter patterns (1-3 undelimited, delimited, mixed, #{ ) x 6 bodies x 4 argument shapes (token, group, nested group, blank-separated); \\newcommand with 1-3 '
             'arguments and optional argument present / absent / empty; nested definitions with ##; \\let before redefinition (in groups, chains); \\csname; \\expandafter; \\gdef vs \\def '
             'in 0-2 groups; calls in bodies and in arguments; 6 patterns with delimiters of 2-3 tokens x 3 bodies x 5 argument shapes (incl. the argument containing / ending in a '
             'proper prefix of the delimiter); 13 further fixed program shapes (macro call inside a delimited argument, optional argument holding a group, 4 arguments with optional, '
             '\\newcommand*, \\renewcommand changing arity, \\gdef inside a body, redefinition order, \\csname call with argument, \\expandafter chains); all payload characters symbolic',
    'thorough': 'all pattern x body x argument-shape combinations; every parameter with its own argument shape (4^n per pattern); multi-token delimiters in all 4 wrappings; '
                '9-parameter macro; three levels of call nesting',
}
ASSUMPTIONS = ['normal form of DESIGN.md section 3: non-recursive programs, no delimiter hidden in braces, catcodes unchanged between definition and use, \\edef not used',
               'visible text is compared with blanks removed']
OUTSIDE = ['\\edef/\\xdef', '\\ifx inside macro bodies (covered for conditionals by C03)', 'more than 3 levels of call nesting']
BUDGET_S = {'quick': 900, 'thorough': 3300}


def reset():
    common.reset_parser_state()


# ------------------------------------------------------------------------------------------- token helpers
def CS(name):
    return ('cs', name)


def C(ch):
    return ('c', ch)


def T(text):
    """tokens of a literal source fragment: \\name -> cs, everything else chars (blanks kept)"""
    out = []
    i = 0
    while i < len(text):
        ch = text[i]
        if ch == '\\':
            j = i + 1
            while j < len(text) and (text[j].isalpha() or text[j] == '@'):
                j += 1
            if j == i + 1:
                j += 1
            out.append(CS(text[i + 1:j]))
            i = j
            while i < len(text) and text[i] == ' ' and text[i - 1].isalpha():
                i += 1
        else:
            out.append(C(ch))
            i += 1
    return out


def render(tokens):
    chars = []
    for k, t in enumerate(tokens):
        if t[0] == 'cs':
            chars.append('\\')
            chars.extend(t[1])
            nxt = tokens[k + 1] if k + 1 < len(tokens) else None
            if t[1][-1:].isalpha() and nxt is not None and nxt[0] == 'c':
                c = nxt[1]
                if not isinstance(c, str) or c.isalpha() or c == ' ':
                    chars.append(' ')
        else:
            chars.append(t[1])
    return chars


def is_c(t, ch):
    return t[0] == 'c' and isinstance(t[1], str) and t[1] == ch


def tok_eq(a, b):
    if a[0] != b[0]:
        return False
    if a[0] == 'cs':
        return a[1] == b[1]
    return bool(eq(a[1], b[1]))


# ------------------------------------------------------------------------------------------- reference expander
class Ref:
    def __init__(self):
        self.frames = [{}]
        self.out = []

    def lookup(self, name):
        for f in reversed(self.frames):
            if name in f:
                return f[name]
        return None

    def define(self, name, meaning, glob):
        (self.frames[0] if glob else self.frames[-1])[name] = meaning

    def read_group(self, toks):
        """toks starts with '{': returns the tokens inside the matching braces"""
        assert is_c(toks[0], '{'), toks[:3]
        toks.pop(0)
        level = 1
        body = []
        while toks:
            t = toks.pop(0)
            if is_c(t, '{'):
                level += 1
            elif is_c(t, '}'):
                level -= 1
                if level == 0:
                    return body
            body.append(t)
        raise ValueError('unbalanced')

    def skip_blanks(self, toks):
        while toks and is_c(toks[0], ' '):
            toks.pop(0)

    def read_undelimited(self, toks):
        self.skip_blanks(toks)
        if is_c(toks[0], '{'):
            return self.read_group(toks)
        return [toks.pop(0)]

    def read_delimited(self, toks, delim):
        """everything up to `delim` at brace level 0; one pair of enclosing braces is stripped"""
        arg = []
        level = 0
        while True:
            if level == 0 and len(toks) >= len(delim) and all(tok_eq(a, b) for a, b in zip(toks, delim)):
                del toks[:len(delim)]
                break
            t = toks.pop(0)
            if is_c(t, '{'):
                level += 1
            elif is_c(t, '}'):
                level -= 1
            arg.append(t)
        if len(arg) >= 2 and is_c(arg[0], '{') and is_c(arg[-1], '}'):
            lvl = 0
            ok = True
            for i, t in enumerate(arg):
                if is_c(t, '{'):
                    lvl += 1
                elif is_c(t, '}'):
                    lvl -= 1
                    if lvl == 0 and i < len(arg) - 1:
                        ok = False
                        break
            if ok:
                arg = arg[1:-1]
        return arg

    def substitute(self, body, args):
        out = []
        i = 0
        while i < len(body):
            t = body[i]
            if is_c(t, '#') and i + 1 < len(body):
                n = body[i + 1]
                if is_c(n, '#'):
                    out.append(C('#'))
                    i += 2
                    continue
                if n[0] == 'c' and isinstance(n[1], str) and n[1].isdigit():
                    out.extend(args[int(n[1]) - 1])
                    i += 2
                    continue
            out.append(t)
            i += 1
        return out

    def call(self, meaning, toks):
        kind = meaning[0]
        if kind == 'def':
            _, params, body = meaning
            args = []
            i = 0
            # leading delimiter text must match
            while i < len(params) and not is_c(params[i], '#'):
                assert tok_eq(toks[0], params[i]), 'use does not match definition'
                toks.pop(0)
                i += 1
            while i < len(params):
                assert is_c(params[i], '#')
                if i == len(params) - 1:
                    break                         # the # of #{ : handled with the parameter before it
                i += 2
                if i == len(params) - 1 and is_c(params[i], '#'):
                    # #{ : the parameter runs up to the next opening brace, which stays in the input
                    arg = []
                    while not is_c(toks[0], '{'):
                        arg.append(toks.pop(0))
                    args.append(arg)
                    break
                delim = []
                while i < len(params) and not is_c(params[i], '#'):
                    delim.append(params[i])
                    i += 1
                if delim:
                    args.append(self.read_delimited(toks, delim))
                else:
                    args.append(self.read_undelimited(toks))
            return self.substitute(body, args)
        if kind == 'newcommand':
            _, nargs, opt, body = meaning
            args = []
            n = nargs
            if opt is not None:
                self.skip_blanks(toks)
                if toks and is_c(toks[0], '['):
                    toks.pop(0)
                    a = []
                    lvl = 0
                    while True:
                        t = toks.pop(0)
                        if is_c(t, '{'):
                            lvl += 1
                        elif is_c(t, '}'):
                            lvl -= 1
                        elif lvl == 0 and is_c(t, ']'):
                            break
                        a.append(t)
                    args.append(a)
                else:
                    args.append(list(opt))
                n -= 1
            for _ in range(n):
                args.append(self.read_undelimited(toks))
            return self.substitute(body, args)
        raise AssertionError(kind)

    def expand_once(self, toks):
        """expand the first token of toks once (for \\expandafter)"""
        t = toks[0]
        if t[0] == 'cs':
            if t[1] == 'expandafter':
                # expanding \expandafter: the token after the next one is expanded first
                toks.pop(0)
                first = toks.pop(0)
                self.expand_once(toks)
                toks.insert(0, first)
                return
            if t[1] == 'csname':
                toks.pop(0)
                name = []
                while not (toks[0][0] == 'cs' and toks[0][1] == 'endcsname'):
                    x = toks.pop(0)
                    if x[0] == 'cs':
                        m = self.lookup(x[1])
                        toks[0:0] = self.call(m, toks)
                        continue
                    name.append(x[1])
                toks.pop(0)
                toks.insert(0, CS(''.join(name)))
                return
            m = self.lookup(t[1])
            if m is not None and m[0] in ('def', 'newcommand'):
                toks.pop(0)
                toks[0:0] = self.call(m, toks)

    def run(self, toks):
        toks = list(toks)
        glob_next = False
        while toks:
            t = toks.pop(0)
            if t[0] == 'c':
                if is_c(t, '{'):
                    self.frames.append({})
                elif is_c(t, '}'):
                    self.frames.pop()
                elif not is_c(t, ' '):
                    self.out.append(t[1])
                continue
            name = t[1]
            if name in ('def', 'gdef'):
                self.skip_blanks(toks)
                cs = toks.pop(0)
                params = []
                while not is_c(toks[0], '{'):
                    params.append(toks.pop(0))
                body = self.read_group(toks)
                self.define(cs[1], ('def', params, body), name == 'gdef')
            elif name in ('newcommand', 'renewcommand'):
                self.skip_blanks(toks)
                if toks and is_c(toks[0], '*'):
                    toks.pop(0)
                    self.skip_blanks(toks)
                g = self.read_undelimited(toks)
                cs = g[0]
                nargs, opt = 0, None
                if toks and is_c(toks[0], '['):
                    toks.pop(0)
                    nargs = int(toks.pop(0)[1])
                    toks.pop(0)
                    if toks and is_c(toks[0], '['):
                        toks.pop(0)
                        opt = []
                        while not is_c(toks[0], ']'):
                            opt.append(toks.pop(0))
                        toks.pop(0)
                body = self.read_group(toks)
                self.define(cs[1], ('newcommand', nargs, opt, body), False)
            elif name == 'let':
                self.skip_blanks(toks)
                a = toks.pop(0)
                self.skip_blanks(toks)
                if toks and is_c(toks[0], '='):
                    toks.pop(0)
                b = toks.pop(0)
                m = self.lookup(b[1]) if b[0] == 'cs' else ('char', b)
                self.define(a[1], m, False)
            elif name == 'begingroup':
                self.frames.append({})
            elif name == 'endgroup':
                self.frames.pop()
            elif name == 'relax':
                pass
            elif name == 'csname':
                toks.insert(0, t)
                self.expand_once(toks)
            elif name == 'expandafter':
                first = toks.pop(0)
                self.expand_once(toks)
                toks.insert(0, first)
            else:
                m = self.lookup(name)
                if m is None:
                    continue                      # undefined: no text
                if m[0] == 'char':
                    toks.insert(0, m[1])
                else:
                    toks[0:0] = self.call(m, toks)
        return self.out


# ------------------------------------------------------------------------------------------- program families
PATTERNS = ['#1', '#1#2', '#1#2#3', '#1.#2', '#1.', '.#1', '[#1]#2', '#1.#2.', '#1#2.']
BODIES = {1: ['(#1)', '#1#1', 'x#1y', '{#1}', 'x'], 2: ['(#1)(#2)', '#2#1', '#1#2#1', '<#2>', '#1{#2}'], 3: ['(#1)(#2)(#3)', '#3#2#1', '#1#3', '#2#2', '<#1|#2|#3>']}
ARGSHAPES = ['tok', 'grp', 'nest', 'sp']
MULTI_PATTERNS = ['#1.,#2', '#1..', '#1.,#2.,', '#1,.#2.', '#1.,;#2', '#1#2.,']      # delimiters of several tokens
MULTI_SHAPES = ['tok', 'grp', 'partial', 'partial-end', 'partial2']


class Gen:
    """payload letters are fresh symbolic characters"""

    def __init__(self, e):
        self.e = e
        self.n = 0

    def p(self):
        c = self.e.char('p%d' % self.n, 97, 122)
        self.n += 1
        return C(c)

    def arg(self, shape):
        if shape == 'tok':
            return [self.p()]
        if shape == 'grp':
            return [C('{'), self.p(), self.p(), C('}')]
        if shape == 'nest':
            return [C('{'), self.p(), C('{'), self.p(), C('}'), C('}')]
        return [C(' '), self.p()]

    def delimited(self, shape, delim=()):
        if shape == 'partial':                  # the argument contains the beginning of the delimiter
            return [self.p()] + list(delim[:-1]) + [self.p()]
        if shape == 'partial-end':
            return [self.p(), delim[0]]
        if shape == 'partial2':
            return [self.p(), delim[0], self.p()] + list(delim[:-1]) + [self.p()]
        if shape == 'tok':
            return [self.p()]
        if shape == 'grp':
            return [C('{'), self.p(), self.p(), C('}')]
        if shape == 'nest':
            return [self.p(), C('{'), self.p(), C('}')]
        return [self.p(), C(' '), self.p()]


def prog_def(e, pat, body, shape, wrap):
    g = Gen(e)
    shapes = list(shape) if isinstance(shape, (list, tuple)) else None
    nth = [0]

    def sh():
        if shapes is None:
            return shape
        v = shapes[nth[0] % len(shapes)]
        nth[0] += 1
        return v
    params = T(pat)
    n = pat.count('#')
    toks = T('\\def\\mya') + params + [C('{')] + T(body) + [C('}')]
    call = [CS('mya')]
    i = 0
    # walk the pattern to lay out a matching call
    ptoks = params
    k = 0
    while k < len(ptoks) and not is_c(ptoks[k], '#'):
        call.append(ptoks[k])
        k += 1
    while k < len(ptoks):
        k += 2
        delim = []
        while k < len(ptoks) and not is_c(ptoks[k], '#'):
            delim.append(ptoks[k])
            k += 1
        if delim:
            call += g.delimited(sh(), delim) + delim
        else:
            call += g.arg(sh())
    tail = [g.p()]
    if wrap == 'twice':                       # using a macro must not change it
        return toks + call + [C('/')] + call + tail
    if wrap == 'group':
        return [C('{')] + toks + call + [C('}')] + T('\\mya') + tail
    if wrap == 'inbody':
        return toks + T('\\def\\myb{[') + call + T(']}\\myb') + tail
    if wrap == 'inarg':
        return toks + T('\\def\\myc#1{<#1>}\\myc{') + call + [C('}')] + tail
    return toks + call + tail


def prog_newcommand(e, nargs, opt, body, optcase, shape):
    g = Gen(e)
    toks = T('\\newcommand{\\mya}[%d]' % nargs)
    if opt == 'empty-default':
        toks += [C('['), C(']')]                    # \newcommand{\mya}[n][]{..}: the default is empty, the argument is still optional
    elif opt:
        toks += [C('[')] + [g.p()] + [C(']')]
    toks += [C('{')] + T(body) + [C('}')]
    call = [CS('mya')]
    n = nargs
    if opt:
        if optcase == 'present':
            call += [C('['), g.p(), C(']')]
        elif optcase == 'empty':
            call += [C('['), C(']')]
        elif optcase == 'braced':
            call += [C('['), C('{'), g.p(), C(']'), C('}'), C(']')]
        n -= 1
    for _ in range(n):
        call += g.arg(shape)
    return toks + call + [g.p()]


def prog_misc(e, which):
    g = Gen(e)
    P = g.p
    if which == 'hashhash':
        return T('\\def\\mya#1{\\def\\myb##1{#1+##1}}\\mya{') + [P()] + T('}\\myb{') + [P()] + T('}') + [P()]
    if which == 'hashhash2':
        return T('\\def\\mya#1#2{\\def\\myb##1##2{##2#1##1#2}}\\mya{') + [P()] + T('}{') + [P()] + T('}\\myb{') + [P()] + T('}{') + [P()] + T('}')
    if which == 'let-before-redef':
        return T('\\def\\myp{') + [P()] + T('}\\let\\myq\\myp \\def\\myp{') + [P()] + T('}\\myq\\myp')
    if which == 'let-chain':
        return T('\\def\\myp{') + [P()] + T('}\\let\\myq\\myp \\let\\myr\\myq \\def\\myq{') + [P()] + T('}\\def\\myp{') + [P()] + T('}\\myr\\myq\\myp')
    if which == 'let-in-group':
        return T('\\def\\myp{') + [P()] + T('}{\\let\\myq\\myp \\def\\myp{') + [P()] + T('}\\myq\\myp}\\myp') + [P()]
    if which == 'let-args':
        return T('\\def\\myp#1#2{(#2#1)}\\let\\myq\\myp \\def\\myp#1{[#1]}\\myq') + [P(), P()] + T('\\myp') + [P()]
    if which == 'csname':
        return T('\\expandafter\\def\\csname my1x\\endcsname#1{<#1>}\\csname my1x\\endcsname{') + [P()] + T('}') + [P()]
    if which == 'csname-macro':
        return T('\\def\\nm{zq}\\expandafter\\def\\csname my\\nm\\endcsname{') + [P()] + T('}\\myzq\\csname myzq\\endcsname')
    if which == 'expandafter-args':
        return T('\\def\\mya#1#2{(#1|#2)}\\def\\myb{') + [C('{'), P(), C('}'), C('{'), P(), P(), C('}')] + T('}\\expandafter\\mya\\myb') + [P()]
    if which == 'expandafter-once':
        return T('\\def\\mya#1{<#1>}\\def\\myb{\\myc}\\def\\myc{') + [P()] + T('}\\expandafter\\mya\\myb') + [P()]
    if which == 'gdef-groups':
        return T('\\def\\mya{') + [P()] + T('}{{\\gdef\\myb{') + [P()] + T('}\\def\\mya{') + [P()] + T('}\\mya}\\mya}\\mya\\myb')
    if which == 'def-two-groups':
        return T('\\def\\mya{') + [P()] + T('}{\\def\\mya{') + [P()] + T('}{\\def\\mya{') + [P()] + T('}\\mya}\\mya}\\mya')
    if which == 'renewcommand':
        return T('\\newcommand{\\mya}[1]{(#1)}\\renewcommand{\\mya}[2]{[#2#1]}\\mya') + [P(), P(), P()]
    if which == 'nine':
        return T('\\def\\mya#1#2#3#4#5#6#7#8#9{#9#8#7#6#5#4#3#2#1}\\mya') + [P() for _ in range(9)] + [P()]
    if which == 'call-depth3':
        return T('\\def\\mya#1{<#1>}\\def\\myb#1#2{\\mya{#2}\\mya{#1}}\\def\\myc#1{\\myb{#1}{') + [P()] + T('}}\\myc{') + [P()] + T('}') + [P()]
    if which == 'hashbrace':
        return T('\\def\\mya#1#{[#1]}\\mya ') + [P(), P()] + T('{') + [P()] + T('}')
    if which == 'hashbrace2':
        return T('\\def\\mya#1#2#{[#1|#2]}\\mya ') + [P(), P(), P()] + T('{') + [P()] + T('}\\mya{') + [P(), P()] + T('}') + [P()] + T('{') + [P()] + T('}')
    if which == 'hashbrace3':
        return T('\\def\\mya#1.#2#{[#1|#2]}\\mya ') + [P()] + T('.{') + [P()] + T('}\\mya ') + [P(), P()] + T('.') + [P(), C(' '), P()] + T('{') + [P()] + T('}')
    if which == 'hashbrace0':
        return T('\\def\\mya#{[') + [P()] + T(']}\\mya{') + [P()] + T('}')
    raise AssertionError(which)


def prog_misc2(e, which):
    g = Gen(e)
    P = g.p
    if which == 'call-in-delimited-arg':
        return T('\\def\\mya#1.#2{(#1)(#2)}\\def\\myb#1{<#1>}\\mya\\myb{') + [P()] + T('}.') + [P()] + T('\\myb ') + [P(), P()]
    if which == 'macro-as-arg':
        return T('\\def\\mya#1#2{#2#1#2}\\def\\myb{') + [P(), P()] + T('}\\mya\\myb{\\myb ') + [P()] + T('}') + [P()]
    if which == 'optional-with-group':
        return T('\\newcommand{\\mya}[2][') + [P()] + T(']{#2/#1}\\mya[{') + [P(), C(' '), P()] + T('}]{') + [P()] + T('}\\mya{') + [P()] + T('}')
    if which == 'four-args-optional':
        return T('\\newcommand{\\mya}[4][') + [P()] + T(']{#4#3#2#1}\\mya[') + [P()] + T(']') + [P(), P()] + T('{') + [P(), P()] + T('}\\mya ') + [P(), P(), P()]
    if which == 'newcommand-star':
        return T('\\newcommand*{\\mya}[1]{(#1)}\\mya{') + [P()] + T('}\\mya ') + [P()]
    if which == 'renew-optional':
        return T('\\newcommand{\\mya}[2][') + [P()] + T(']{#1-#2}\\renewcommand{\\mya}[1]{[#1]}\\mya[') + [P()] + T(']')
    if which == 'gdef-in-body':
        return T('\\def\\mya#1{\\gdef\\myb{#1}}{\\mya{') + [P()] + T('}}\\myb{\\mya ') + [P()] + T('}\\myb')
    if which == 'def-order':
        return T('\\def\\mya{\\myb ') + [P()] + T('}\\def\\myb{') + [P()] + T('}\\mya\\def\\myb{') + [P()] + T('}\\mya')
    if which == 'two-token-delimiter':
        return T('\\def\\mya#1::#2{(#1|#2)}\\mya ') + [P()] + T(':') + [P()] + T('::') + [P(), P()]
    if which == 'brace-around-param':
        return T('\\def\\mya#1{{#1}#1{{#1}}}\\mya{') + [P(), P()] + T('}\\mya ') + [P()]
    if which == 'csname-call-with-arg':
        return T('\\def\\myxa#1{<#1>}\\def\\nm{xa}\\csname my\\nm\\endcsname{') + [P()] + T('}') + [P()]
    if which == 'expandafter-over-args':
        return T('\\def\\mya#1#2{#2#1}\\def\\myb{') + [P()] + T('}\\expandafter\\mya\\expandafter{\\myb}{') + [P()] + T('}')
    if which == 'expandafter-reuse':          # the macro expanded out of turn is unchanged afterwards
        return T('\\def\\mya#1{[#1]}\\def\\myb{') + [P(), P()] + T('}\\expandafter\\mya\\myb!\\myb!\\expandafter\\mya\\myb')
    if which == 'expandafter-reuse2':
        return T('\\newcommand{\\myb}{') + [P(), P()] + T('}\\def\\mya#1{[#1]}\\expandafter\\mya\\myb!\\myb')
    if which == 'renew-def':                  # \renewcommand replaces a \def macro
        return T('\\def\\mya#1{(#1)}\\renewcommand{\\mya}[2]{[#2#1]}\\mya') + [P(), P(), P()]
    if which == 'renew-let':                  # ... and a \let alias of one, leaving the original alone
        return T('\\def\\myb{') + [P()] + T('}\\let\\mya\\myb\\renewcommand{\\mya}{') + [P()] + T('}\\mya\\myb')
    if which == 'renew-newcommand-noargs':
        return T('\\newcommand{\\mya}{') + [P()] + T('}\\mya\\renewcommand{\\mya}{') + [P()] + T('}\\mya')
    if which == 'def-after-newcommand':
        return T('\\newcommand{\\mya}[1]{(#1)}\\def\\mya#1#2{[#2#1]}\\mya') + [P(), P(), P()]
    if which == 'let-char-redef':             # a name \let to a character is an ordinary name: it can be defined again
        return T('\\let\\mya=') + [P()] + T('\\mya\\def\\mya{') + [P()] + T('}\\mya')
    if which == 'let-char-relet':
        return T('\\def\\myb{') + [P()] + T('}\\let\\mya=') + [P()] + T('\\mya\\let\\mya\\myb\\mya')
    if which == 'hash-parameterless-newcommand':       # ## in a body without parameters of its own
        return T('\\def\\mya{\\newcommand{\\myb}[1]{[##1]}}\\mya\\myb{') + [P()] + T('}') + [P()]
    if which == 'hash-parameterless-def':
        return T('\\def\\mya{\\def\\myb##1##2{[##2##1]}}\\mya\\myb') + [P(), P()]
    if which == 'hash-parameterless-deep':
        return T('\\def\\mya{\\def\\myb{\\def\\myc####1{[####1]}}}\\mya\\myb\\myc ') + [P()]
    if which == 'hash-parameterless-literal':
        return T('\\def\\mya{') + [P()] + T('##') + [P()] + T('}\\def\\myb#1#2#3{[#3#1]}\\expandafter\\myb\\mya')
    if which == 'delimited-group-stripped':     # a delimited argument that is exactly one group loses its braces: the inner macro takes one token of it
        return T('\\def\\myb#1{[#1]}\\def\\mya#1.{\\myb#1}\\mya{') + [P(), P()] + T('}.') + [P()]
    if which == 'delimited-two-groups-kept':
        return T('\\def\\myb#1{[#1]}\\def\\mya#1.{\\myb#1}\\mya{') + [P(), P()] + T('}{') + [P()] + T('}.') + [P()]
    if which == 'expandafter-empty':            # the token expanded out of turn expands to nothing: the saved macro takes what follows
        return T('\\def\\mya#1{[#1]}\\def\\myb{}\\expandafter\\mya\\myb ') + [P(), P()] + T('\\expandafter\\mya\\myb{') + [P(), P()] + T('}')
    if which == 'call-last-token':
        return T('\\def\\mya{') + [P()] + T('}') + [P()] + T('\\mya')
    raise AssertionError(which)


MISC2 = ['call-in-delimited-arg', 'macro-as-arg', 'optional-with-group', 'four-args-optional', 'newcommand-star', 'renew-optional', 'gdef-in-body', 'def-order',
         'two-token-delimiter', 'brace-around-param', 'csname-call-with-arg', 'expandafter-over-args', 'call-last-token', 'expandafter-reuse', 'expandafter-reuse2', 'renew-def', 'renew-let',
         'renew-newcommand-noargs', 'def-after-newcommand', 'let-char-redef', 'let-char-relet',
         'expandafter-empty', 'delimited-group-stripped', 'delimited-two-groups-kept', 'hash-parameterless-newcommand', 'hash-parameterless-def', 'hash-parameterless-deep', 'hash-parameterless-literal']


def h_misc2(e, which):
    _check(e, prog_misc2(e, which), 'misc:' + which)


MISC = ['hashhash', 'hashhash2', 'let-before-redef', 'let-chain', 'let-in-group', 'let-args', 'csname', 'csname-macro', 'expandafter-args', 'expandafter-once',
        'gdef-groups', 'def-two-groups', 'renewcommand', 'nine', 'call-depth3', 'hashbrace', 'hashbrace0', 'hashbrace2', 'hashbrace3']


def _check(e, toks, label):
    doc = TeXDocument()
    chars = render(toks)
    tex = TeX(doc)
    tex.input(Src(chars))
    try:
        want = Ref().run(toks)
    except (AssertionError, IndexError, ValueError) as ex:
        e.tag('nonconforming')
        return
    try:
        out = tex.parse()
        got = out.textContent
    except (KeyError, ValueError, TypeError, IndexError, AttributeError) as ex:
        e.fail_exception(ex)
        return
    got = api.text_of(got)
    gc = [c for c in api.chars(got) if not eq(c, ' ')]
    shown = ''.join(c if isinstance(c, str) else '?' for c in chars)
    e.observe(api.cat(gc))
    e.check(len(gc) == len(want), 'visible text has %d characters, TeX\'s substitution rules give %d (program %s)' % (len(gc), len(want), shown), 'text-length:' + label)
    if len(gc) != len(want):
        return
    e.check(api.all_([eq(a, b) for a, b in zip(gc, want)]), 'visible text differs from the reference expansion (program %s)' % shown, 'text:' + label)
    e.nontriv()


def h_def(e, lo, hi, combos):
    C_ = combos[lo:hi]
    pat, body, shape, wrap = C_[e.choice(len(C_), 'program')]
    _check(e, prog_def(e, pat, body, shape, wrap), 'def')


def h_newcommand(e, lo, hi, combos):
    C_ = combos[lo:hi]
    nargs, opt, body, optcase, shape = C_[e.choice(len(C_), 'program')]
    _check(e, prog_newcommand(e, nargs, opt, body, optcase, shape), 'newcommand')


def h_misc(e, which):
    _check(e, prog_misc(e, which), 'misc:' + which)


SOUP_PATTERNS = ['#1.#2', '#1.,#2', '#1..#2', '#1.#2,', '#1,.,#2', '#1#2.,', '.#1,']


def h_soup(e, pat, n):
    """the text after the macro is n characters, each a payload letter or one of the delimiter characters: every way the
    actual text can interleave with pieces of the delimiters; a closing copy of every delimiter guarantees the use matches"""
    params = T(pat)
    body = {1: '(#1)', 2: '(#1|#2)'}[pat.count('#')]
    toks = T('\\def\\mya') + params + [C('{')] + T(body) + [C('}')] + [CS('mya')]
    k = 0
    while k < len(params) and not is_c(params[k], '#'):
        toks.append(params[k])
        k += 1
    for i in range(n):
        c = e.char('s%d' % i, 44, 122)
        e.assume(e.one_of(c, 'ab.,'))
        toks.append(C(c))
    closing = [t for t in params[k:] if not is_c(t, '#') and not (t[0] == 'c' and isinstance(t[1], str) and t[1].isdigit())]
    toks += closing + T('yz') + closing + T('w')
    _check(e, toks, 'soup')


def def_combos(tier):
    out = []
    for pat in PATTERNS:
        n = pat.count('#')
        for body in BODIES[n]:
            for shape in ARGSHAPES:
                if '.' in pat and shape == 'sp' and pat.startswith('.'):
                    continue
                for wrap in ('none', 'group', 'inbody', 'inarg', 'twice'):
                    out.append((pat, body, shape, wrap))
    for pat in MULTI_PATTERNS:
        n = pat.count('#')
        for body in BODIES[n][:3]:
            for shape in MULTI_SHAPES:
                for wrap in (('none', 'inarg') if tier == 'quick' else ('none', 'group', 'inbody', 'inarg')):
                    out.append((pat, body, shape, wrap))
    if tier != 'quick':
        # every parameter with its own argument shape
        for pat in PATTERNS:
            n = pat.count('#')
            if n < 2:
                continue
            for body in BODIES[n][:3]:
                for shapes in itertools.product(ARGSHAPES, repeat=n):
                    if len(set(shapes)) == 1:
                        continue
                    if pat.startswith('.') and shapes[0] == 'sp':
                        continue
                    out.append((pat, body, list(shapes), 'none'))
    return out


def nc_combos(tier):
    out = []
    for nargs in (1, 2, 3):
        for opt in (False, True, 'empty-default'):
            for body in BODIES[nargs][:3]:
                for optcase in (('present', 'absent', 'empty', 'braced') if opt else ('absent',)):
                    for shape in ('tok', 'grp', 'sp'):
                        if opt and nargs == 1 and shape != 'tok':
                            continue
                        if opt == 'empty-default' and body != BODIES[nargs][0]:
                            continue
                        out.append((nargs, opt, body, optcase, shape))
    return out


def jobs(tier, seed):
    J = []
    q = tier == 'quick'
    dc = def_combos(tier)
    chunk = 20
    stride = 1
    for lo in range((seed % stride) * chunk, len(dc), chunk * stride):
        J.append(dict(harness='h_def', params=dict(lo=lo, hi=min(len(dc), lo + chunk), combos=dc), label='def [%d:%d]' % (lo, lo + chunk), no_twin=lo > 100))
    nc = nc_combos(tier)
    for lo in range(0, len(nc), chunk):
        J.append(dict(harness='h_newcommand', params=dict(lo=lo, hi=min(len(nc), lo + chunk), combos=nc), label='newcommand [%d:%d]' % (lo, lo + chunk), no_twin=lo > 0))
    for w in MISC:
        J.append(dict(harness='h_misc', params=dict(which=w), label='misc ' + w, no_twin=True))
    for w in MISC2:
        J.append(dict(harness='h_misc2', params=dict(which=w), label='misc ' + w, no_twin=True))
    for pat in SOUP_PATTERNS:
        J.append(dict(harness='h_soup', params=dict(pat=pat, n=3 if q else 7), label='soup ' + pat, no_twin=pat != '#1.,#2'))
    return J
