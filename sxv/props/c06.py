"""C06  The document tree stays a consistent tree under any sequence of DOM edits.

Real code: Node.append/insert/__setitem__/insertBefore/insertAfter/replaceChild/removeChild/pop/extend/normalize/cloneNode/
appendText/textContent/firstChild/lastChild, _previousSibling/_nextSibling/_compareDocumentPosition/_getElementsByTagName.
Index arguments are z3 integers over [-(n+2), n+2]; text node contents are symbolic characters; the operation, its target and
argument kind are finite choices enumerated exhaustively (the heap is pointer-rich: the solver's role is index arithmetic and
text equality; stated as such in the evidence).  Oracle: a list-of-lists model with Python list semantics."""
from sxv import api
from sxv.api import eq
from sxv.props import common

from plasTeX.DOM import Document, Node, NotFoundErr

PROP = 'C06'
LEVEL = 'model_checking'
FUNCTIONS = ['plasTeX.DOM:Node.append', 'plasTeX.DOM:Node.insert', 'plasTeX.DOM:Node.__setitem__', 'plasTeX.DOM:Node.insertBefore', 'plasTeX.DOM:Node.insertAfter',
             'plasTeX.DOM:Node.replaceChild', 'plasTeX.DOM:Node.removeChild', 'plasTeX.DOM:Node.pop', 'plasTeX.DOM:Node.extend', 'plasTeX.DOM:Node.normalize',
             'plasTeX.DOM:Node.appendText', 'plasTeX.DOM:Node.cloneNode', 'plasTeX.DOM:CharacterData.cloneNode', 'plasTeX.DOM:Node.textContent',
             'plasTeX.DOM:Node.firstChild', 'plasTeX.DOM:Node.lastChild', 'plasTeX.DOM:_previousSibling', 'plasTeX.DOM:_nextSibling',
             'plasTeX.DOM:_compareDocumentPosition', 'plasTeX.DOM:_getElementsByTagName', 'plasTeX.DOM:Node.allChildNodes', 'plasTeX.DOM:Document.createElement',
             'plasTeX.DOM:Document.createTextNode', 'plasTeX.DOM:Document.createDocumentFragment']
RULE = ('one evaluation = one path = one pre-state tree x one operation history x one class of index values / text characters; '
        'non-trivial = the history changed the tree (at least one successful edit)')
BOUNDS = {
    'quick': 'one operation (one-step from each of 6 pre-state trees of <= 6 nodes) with every target element, every argument kind (detached element, text node with a '
             'symbolic character, fragment of two) and every index in [-(n+2), n+2]; all histories of 2 operations from 2 pre-states with reduced argument kinds',
    'thorough': 'all histories of 2 operations from all 6 pre-states; histories of 3 operations from 2 pre-states with reduced options',
}
ASSUMPTIONS = ['arguments are detached nodes or fragments created by the same document (property scope)',
               'item assignment and pop use indices valid for a Python list of that length; insert uses any index in [-(n+2), n+2] (list.insert clamps)',
               'after an operation that raises (NotFoundErr/IndexError in both model and implementation) the history ends: nothing is claimed about a failed edit']
OUTSIDE = ['histories longer than 3', 'attribute-held fragments (NamedNodeMap re-parenting)', 'random length-40 sequences (not this technique)']
BUDGET_S = {'quick': 900, 'thorough': 3300}

OPS = ['append', 'insert', 'setitem', 'insertBefore', 'insertAfter', 'replaceChild', 'removeChild', 'pop', 'extend', 'normalize']
SHAPES = ['r', 'r(a,t)', 'r(a(b),t,c)', 'r(t,t,a(t))', 'r(a(b(c)))', 'r(t,a(t,t),t)']


def reset():
    pass


class World:
    """the real tree plus the list-of-lists model (children lists keyed by node identity)"""

    def __init__(self, e, shape):
        self.e = e
        self.doc = Document()
        self.kids = {}          # id(element) -> list of child objects (model)
        self.nodes = {}         # id -> object (keeps them alive)
        self.ntext = 0
        self.nel = 0
        self.root = self.build(shape)

    def new_el(self, name=None):
        self.nel += 1
        el = self.doc.createElement(name or 'bce'[self.nel % 3])
        self.kids[id(el)] = []
        self.nodes[id(el)] = el
        return el

    def new_text(self):
        c = self.e.char('t%d' % self.ntext, 97, 99)
        self.ntext += 1
        t = self.doc.createTextNode(c)
        self.nodes[id(t)] = t
        return t

    def build(self, shape):
        # tiny parser for  name(child,child(...))
        pos = [0]

        def node():
            ch = shape[pos[0]]
            pos[0] += 1
            if ch == 't':
                return self.new_text()
            el = self.new_el(ch)
            if pos[0] < len(shape) and shape[pos[0]] == '(':
                pos[0] += 1
                while True:
                    k = node()
                    el.append(k)
                    self.kids[id(el)].append(k)
                    if shape[pos[0]] == ',':
                        pos[0] += 1
                        continue
                    pos[0] += 1
                    break
            return el
        return node()

    def is_el(self, n):
        return id(n) in self.kids

    def elements(self):
        out = []

        def walk(n):
            out.append(n)
            for k in self.kids[id(n)]:
                if self.is_el(k):
                    walk(k)
        walk(self.root)
        return out

    def text_of(self, n):
        if not self.is_el(n):
            return [n]
        out = []
        for k in self.kids[id(n)]:
            out.extend(self.text_of(k))
        return out


def _flatten_arg(w, kind):
    """returns (real argument object, list of nodes it contributes)"""
    if kind == 'el':
        x = w.new_el()
        return x, [x]
    if kind == 'text':
        x = w.new_text()
        return x, [x]
    f = w.doc.createDocumentFragment()
    a, b = w.new_el(), w.new_text()
    f.append(a)
    f.append(b)
    return f, [a, b]


def _index(e, name, lo, hi):
    i = e.int(name, lo, hi)
    v = e.concretize(i.z) if e.symbolic else i
    return i, v


def step(e, w, k, argkinds):
    """one operation on the real tree and on the model; returns 'ok' | 'raised' """
    els = w.elements()
    op = OPS[e.choice(len(OPS), 'op%d' % k)]
    tgt = els[e.choice(len(els), 'tgt%d' % k)]
    L = w.kids[id(tgt)]
    n = len(L)
    want_exc = None
    got_exc = None
    if op in ('append', 'insert', 'setitem', 'insertBefore', 'insertAfter', 'replaceChild'):
        arg, items = _flatten_arg(w, argkinds[e.choice(len(argkinds), 'arg%d' % k)])
    if op == 'append':
        L.extend(items)
        tgt.append(arg)
    elif op == 'insert':
        i, v = _index(e, 'i%d' % k, -(n + 2), n + 2)
        for off, it in enumerate(items):
            L.insert(v + off if v >= 0 else (max(n + v, 0) + off), it)
        tgt.insert(i, arg)
    elif op == 'setitem':
        if n == 0:
            return 'skip'
        i, v = _index(e, 'i%d' % k, -n, n - 1)
        p = v if v >= 0 else n + v
        L[p:p + 1] = items
        tgt[i] = arg
    elif op in ('insertBefore', 'insertAfter', 'replaceChild', 'removeChild'):
        if n == 0:
            # reference child that is not a child: NotFoundErr expected
            ref = w.new_el()
            try:
                if op == 'removeChild':
                    tgt.removeChild(ref)
                else:
                    getattr(tgt, op)(arg, ref)
                e.check(False, '%s with a foreign reference child did not raise NotFoundErr' % op, 'notfound-missing')
            except NotFoundErr:
                return 'raised'
        c = e.choice(n, 'ref%d' % k)
        ref = L[c]
        if op == 'insertBefore':
            L[c:c] = items
            tgt.insertBefore(arg, ref)
        elif op == 'insertAfter':
            L[c + 1:c + 1] = items
            tgt.insertAfter(arg, ref)
        elif op == 'replaceChild':
            L[c:c + 1] = items
            r = tgt.replaceChild(arg, ref)
            e.check(r is ref, 'replaceChild did not return the old child', 'return-value')
        else:
            del L[c]
            r = tgt.removeChild(ref)
            e.check(r is ref, 'removeChild did not return the removed child', 'return-value')
    elif op == 'pop':
        if n == 0:
            return 'skip'
        i, v = _index(e, 'i%d' % k, -n, n - 1)
        exp = L.pop(v)
        r = tgt.pop(i)
        e.check(r is exp, 'pop returned a different node', 'return-value')
    elif op == 'extend':
        a, b = w.new_el(), w.new_text()
        L.extend([a, b])
        tgt.extend([a, b])
    elif op == 'normalize':
        before = api.cat(w.text_of(w.root))
        tgt.normalize()
        _model_normalize(w, tgt)
        _sync_text_nodes(e, w, tgt)
        after = w.root.textContent
        e.check(eq(after, before), 'normalize changed the text content', 'normalize-text')
        snapshot = _shape(w, tgt)
        tgt.normalize()
        _sync_text_nodes(e, w, tgt)
        e.check(_shape(w, tgt) == snapshot, 'normalize is not idempotent', 'normalize-idempotent')
    return 'ok'


def _model_normalize(w, el):
    """model: merge runs of adjacent text children (recursively); merged nodes are new objects -> marked by None placeholders"""
    L = w.kids[id(el)]
    out = []
    run = []
    for k in L:
        if w.is_el(k):
            if run:
                out.append(('text', run))
                run = []
            out.append(k)
            _model_normalize(w, k)
        else:
            run.append(k)
    if run:
        out.append(('text', run))
    w.kids[id(el)] = out


def _sync_text_nodes(e, w, el):
    """after normalize the implementation created fresh text nodes: bind them to the model's merged runs (checking content)"""
    L = w.kids[id(el)]
    real = list(el.childNodes)
    e.check(len(real) == len(L), 'normalize: %d children, model has %d' % (len(real), len(L)), 'normalize-structure')
    for idx, (r, m) in enumerate(zip(real, L)):
        if isinstance(m, tuple):
            e.check(r.nodeType == Node.TEXT_NODE, 'normalize: merged text run is not a text node', 'normalize-structure')
            e.check(eq(r, api.cat(m[1])), 'normalize: merged text differs from the concatenation of the run', 'normalize-text')
            w.nodes[id(r)] = r
            L[idx] = r
        elif w.is_el(m):
            e.check(r is m, 'normalize reordered or replaced an element child', 'normalize-structure')
            _sync_text_nodes(e, w, m)
        else:
            e.check(r.nodeType == Node.TEXT_NODE and eq(r, m), 'normalize: text child changed', 'normalize-text')
            w.nodes[id(r)] = r
            L[idx] = r


def _shape(w, el):
    return [(_shape(w, k) if w.is_el(k) else 't') for k in w.kids[id(el)]]


def check_tree(e, w):
    """invariant + derived views against the model"""
    order = []

    def walk(el):
        order.append(el)
        L = w.kids[id(el)]
        real = list(el.childNodes)
        e.check(len(real) == len(L), 'child count %d, list model predicts %d' % (len(real), len(L)), 'child-order')
        if len(real) != len(L):
            return
        e.check(all(r is m for r, m in zip(real, L)), 'child order differs from the list model', 'child-order')
        for i, k in enumerate(L):
            e.check(k.parentNode is el, 'child %d of <%s>: parentNode does not name the node that lists it' % (i, el.nodeName), 'parent-link')
            e.check(k.ownerDocument is w.doc, 'node does not belong to the document that created it', 'owner-document')
            e.check(k.previousSibling is (L[i - 1] if i else None), 'previousSibling', 'sibling')
            e.check(k.nextSibling is (L[i + 1] if i + 1 < len(L) else None), 'nextSibling', 'sibling')
        e.check(el.firstChild is (L[0] if L else None), 'firstChild', 'first-last')
        e.check(el.lastChild is (L[-1] if L else None), 'lastChild', 'first-last')
        for k in L:
            if w.is_el(k):
                walk(k)
            else:
                order.append(k)
    walk(w.root)
    e.check(eq(w.root.textContent, api.cat(w.text_of(w.root))), 'textContent is not the concatenation in document order', 'text-content')
    for name in 'bce':
        exp = [n for n in order[1:] if w.is_el(n) and n.nodeName == name]
        got = w.root.getElementsByTagName(name)
        e.check(len(got) == len(exp) and all(g is x for g, x in zip(got, exp)), 'getElementsByTagName(%r)' % name, 'by-tag-name')
    allk = w.root.allChildNodes
    e.check(len(allk) == len(order) - 1 and all(a is b for a, b in zip(allk, order[1:])), 'allChildNodes is not the depth-first order', 'all-children')
    # document position of every ordered pair of nodes, both directions
    def contains(a, b):
        anc = b.parentNode
        while anc is not None:
            if anc is a:
                return True
            anc = anc.parentNode
        return False
    nodes = order[1:]
    for i, a in enumerate(nodes):
        for j, b in enumerate(nodes):
            if i == j:
                continue
            r = a.compareDocumentPosition(b)
            if contains(a, b):
                want = Node.DOCUMENT_POSITION_CONTAINED_BY
            elif contains(b, a):
                want = Node.DOCUMENT_POSITION_CONTAINS
            else:
                want = Node.DOCUMENT_POSITION_FOLLOWING if j > i else Node.DOCUMENT_POSITION_PRECEDING
            e.check(r == want, 'compareDocumentPosition of node %d with node %d (document order): got %s want %s' % (i, j, r, want), 'document-position')
    # shallow clone: same kind of node, and the original keeps its children
    for n in nodes:
        if w.is_el(n) and len(w.kids[id(n)]):
            sh = n.cloneNode(False)
            e.check(sh.nodeName == n.nodeName and sh is not n, 'shallow clone is not a new node of the same name', 'clone')
            e.check(all(k.parentNode is n for k in n.childNodes) and len(n.childNodes) == len(w.kids[id(n)]),
                    'after a shallow clone the original\'s children no longer name it as their parent', 'parent-link')
            e.check(all(k.parentNode is sh for k in sh.childNodes), 'children listed by a shallow clone do not name it as their parent', 'parent-link')
            break
    # deep clone: equal shape and text, disjoint identities
    cl = w.root.cloneNode(True)
    ids = set(id(n) for n in order)

    def cmp(c, o):
        if w.is_el(o):
            e.check(c.nodeName == o.nodeName and len(c.childNodes) == len(w.kids[id(o)]), 'deep clone differs in structure', 'clone')
            if len(c.childNodes) != len(w.kids[id(o)]):
                return
            for ck, ok in zip(c.childNodes, w.kids[id(o)]):
                cmp(ck, ok)
        else:
            e.check(c.nodeType == Node.TEXT_NODE and eq(c, o), 'deep clone differs in text', 'clone')
        e.check(id(c) not in ids, 'deep clone shares a node with the original', 'clone')
    cmp(cl, w.root)


def h_dom(e, shape, nsteps, argkinds):
    w = World(e, SHAPES[shape])
    changed = False
    for k in range(nsteps):
        try:
            r = step(e, w, k, argkinds)
        except (IndexError, TypeError, AttributeError, ValueError, NotFoundErr) as ex:
            e.fail_exception(ex)
            return
        if r == 'raised':
            break
        if r == 'ok':
            changed = True
            check_tree(e, w)
    if nsteps == 0:
        check_tree(e, w)
    e.observe(_render(w, w.root))
    if changed:
        e.nontriv()


def _render(w, el):
    return [el.nodeName] + [(_render(w, k) if getattr(k, 'nodeType', 0) == 1 else api.text_of(k)) for k in el.childNodes]


def jobs(tier, seed):
    J = []
    full = ['el', 'text', 'frag']
    for s in range(len(SHAPES)):
        J.append(dict(harness='h_dom', params=dict(shape=s, nsteps=1, argkinds=full), label='1 step from %s' % SHAPES[s], split=2))
    if tier == 'quick':
        for s in (2, 3):
            J.append(dict(harness='h_dom', params=dict(shape=s, nsteps=2, argkinds=['frag', 'text']), label='2 steps from %s' % SHAPES[s], split=4))
    else:
        for s in range(len(SHAPES)):
            J.append(dict(harness='h_dom', params=dict(shape=s, nsteps=2, argkinds=full), label='2 steps from %s' % SHAPES[s], split=4))
        for s in (1, 3):
            J.append(dict(harness='h_dom', params=dict(shape=s, nsteps=3, argkinds=['frag']), label='3 steps from %s' % SHAPES[s], split=6))
    return J
