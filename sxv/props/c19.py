"""C19  ifthen tests evaluate as the boolean expression they spell.

LaTeX source text  \\ifthenelse{<expr>}{T}{E}  /  \\whiledo{<test>}{body}  is run through the real tokenizer, argument
parser (XTok expansion), the atom commands and ifthenelse.evaluate/prec.  Atom operands are symbolic: \\newboolean
switches are z3 booleans, comparison operands are macro-produced numbers whose digits are symbolic characters, the
relation character is symbolic in {<,=,>}, \\equal arguments are symbolic letters, the loop bound is a symbolic digit."""
import itertools
from sxv import api
from sxv.api import Src
from sxv.props import common

import plasTeX
from plasTeX import TeXDocument
from plasTeX.TeX import TeX

PROP = 'C19'
LEVEL = 'model_checking'
FUNCTIONS = ['plasTeX.Packages.ifthen:ifthenelse.evaluate', 'plasTeX.Packages.ifthen:ifthenelse.prec', 'plasTeX.Packages.ifthen:ifthenelse.invoke',
             'plasTeX.Packages.ifthen:whiledo.invoke', 'plasTeX.Packages.ifthen:boolean.invoke', 'plasTeX.Packages.ifthen:isodd.invoke',
             'plasTeX.Packages.ifthen:equal.invoke', 'plasTeX.Packages.ifthen:isundefined.invoke', 'plasTeX.Packages.ifthen:lengthtest.invoke',
             'plasTeX.TeX:TeX.readInternalType', 'plasTeX.TeX:TeX.readInteger', 'plasTeX.TeX:TeX.expandTokens', 'plasTeX.TeX:TeX.readArgumentAndSource']
RULE = ('one evaluation = one path = one expression shape x one class of atom valuations; non-trivial = the expression contains >= 1 operator')
BOUNDS = {
    'quick': 'all expression trees of depth <= 2 over {atom, \\not t, \\( t \\), t \\and t, t \\or t} (61 shapes) with atoms rotated over '
             '{\\boolean, integer comparison with symbolic digits and relation, \\isodd, \\equal, \\isundefined}; \\AND/\\OR/\\NOT spellings; \\whiledo with bound 0..6',
    'thorough': 'depth <= 3 trees with <= 5 atoms (a seed-rotated eighth of the 4752 shapes per run), depth-4 left/right chains, redundant parentheses, \\lengthtest atoms with symbolic digits and units pt/mm/cm, nested \\whiledo',
}
ASSUMPTIONS = ['\\not binds tightest, \\and/\\or have equal precedence and associate left to right (property text); the linearisation parenthesises '
               'a binary right operand and a binary operand of \\not so that the spelled expression denotes the generated tree',
               'comparison operands are macro-produced decimal literals of 1-2 symbolic digits',
               'floats as reals in \\lengthtest']
OUTSIDE = ['expressions deeper than the bound', 'lengths in units other than pt/mm/cm inside \\lengthtest']
BUDGET_S = {'quick': 900, 'thorough': 3300}

KINDS = ['bool', 'cmp', 'bool', 'isodd', 'equal', 'bool', 'undef', 'cmp']


def trees(d):
    if d == 0:
        yield ('atom',)
        return
    sub = list(trees(d - 1))
    for t in sub:
        yield t
    for t in sub:
        yield ('not', t)
        yield ('par', t)
    for a in sub:
        for b in sub:
            yield ('and', a, b)
            yield ('or', a, b)


def natoms(t):
    return 1 if t[0] == 'atom' else sum(natoms(x) for x in t[1:])


def depth(t):
    return 0 if t[0] == 'atom' else 1 + max(depth(x) for x in t[1:])


_CACHE = {}


def shapes(family):
    if family not in _CACHE:
        if family == 'd2':
            r = sorted(set(trees(2)), key=repr)
        elif family == 'd3':
            r = sorted({t for t in trees(3) if natoms(t) <= 5 and depth(t) == 3}, key=repr)
        elif family == 'chains4':
            r = []
            for ops in itertools.product(['and', 'or'], repeat=3):
                for nots in itertools.product([0, 1], repeat=4):
                    def leaf(i):
                        return ('not', ('atom',)) if nots[i] else ('atom',)
                    left = leaf(0)
                    for i, op in enumerate(ops):
                        left = (op, left, leaf(i + 1))
                    r.append(left)
                    right = leaf(3)
                    for i, op in enumerate(reversed(ops)):
                        right = (op, leaf(2 - i), right)
                    r.append(right)
                    r.append(('not', left))
                    r.append(('not', ('not', left)))
        _CACHE[family] = r
    return _CACHE[family]


class Build:
    """linearises a tree into source text and evaluates the reference value on the same symbolic atoms"""

    def __init__(self, e, ctx, rot, spelling):
        self.e, self.ctx, self.rot, self.sp = e, ctx, rot, spelling
        self.n = 0
        self.pre = []

    def atom(self):
        e, i = self.e, self.n
        self.n += 1
        kind = KINDS[(i + self.rot) % len(KINDS)]
        if kind == 'bool':
            name = 'p%d' % i
            self.ctx.newif(name)
            v = e.bool('p%d' % i)
            self.ctx[name].state = v
            return ['\\boolean{%s}' % name], v
        if kind == 'cmp':
            d = [e.char('d%d_%d' % (i, k), 48, 57) for k in range(3)]
            rel = e.char('rel%d' % i, 60, 62)
            sg = e.char('sg%d' % i, 43, 45)              # the left operand is a macro-produced number with a sign
            e.assume(e.one_of(sg, '+-'))
            self.pre += ['\\def\\na%s{' % 'abcdefgh'[i], sg, d[0], d[1], '}', '\\def\\nb%s{' % 'abcdefgh'[i], d[2], '}']
            a = (api.ord_(d[0]) - 48) * 10 + (api.ord_(d[1]) - 48)
            if api.eq(sg, '-'):
                a = -a
            b = api.ord_(d[2]) - 48
            if api.eq(rel, '<'):
                v = a < b
            elif api.eq(rel, '>'):
                v = a > b
            else:
                v = a == b
            return ['\\na%s ' % 'abcdefgh'[i], rel, '\\nb%s ' % 'abcdefgh'[i]], v
        if kind == 'isodd':
            d = e.char('o%d' % i, 48, 57)
            return ['\\isodd{', d, '}'], ((api.ord_(d) - 48) % 2) == 1
        if kind == 'equal':
            x, y = e.char('x%d' % i, 97, 99), e.char('y%d' % i, 97, 99)
            return ['\\equal{q', x, '}{q', y, '}'], api.eq(x, y)
        if kind == 'undef':
            if i % 2:
                return ['\\isundefined{\\relax}'], False
            return ['\\isundefined{\\nosuchmacroqq}'], True
        raise AssertionError(kind)

    def op(self, k):
        if self.sp == 'upper':
            return {'and': '\\AND ', 'or': '\\OR ', 'not': '\\NOT '}[k]
        return {'and': '\\and ', 'or': '\\or ', 'not': '\\not '}[k]

    def lin(self, t):
        k = t[0]
        if k == 'atom':
            return self.atom()
        if k == 'par':
            s, v = self.lin(t[1])
            return ['\\( '] + s + ['\\) '], v
        if k == 'not':
            s, v = self.lin(t[1])
            if t[1][0] in ('and', 'or'):
                s = ['\\( '] + s + ['\\) ']
            return [self.op('not')] + s, api.not_(v)
        a, va = self.lin(t[1])
        b, vb = self.lin(t[2])
        if t[2][0] in ('and', 'or'):
            b = ['\\( '] + b + ['\\) ']
        return a + [self.op(k)] + b, (api.and_(va, vb) if k == 'and' else api.or_(va, vb))


def reset():
    common.reset_parser_state()


def _doc():
    doc = TeXDocument()
    tex = TeX(doc)
    doc.context.loadPackage(tex, 'ifthen.sty')
    return doc


def _run(e, doc, parts):
    chars = []
    for p in parts:
        chars.extend(api.chars(p))
    tex = TeX(doc)
    tex.input(Src(chars))
    try:
        out = tex.parse()
        return ''.join(str(out.textContent).split())
    except (IndexError, ValueError, KeyError, TypeError, AttributeError) as ex:
        e.fail_exception(ex, 'raises:%s' % type(ex).__name__)
        return None


def h_expr(e, family, lo, hi, spelling='lower'):
    sh = shapes(family)[lo:hi]
    idx = e.choice(len(sh), 'shape')
    t = sh[idx]
    doc = _doc()
    b = Build(e, doc.context, lo + idx, spelling)
    src, val = b.lin(t)
    parts = b.pre + ['\\ifthenelse{'] + src + ['}{T}{E}Z']
    got = _run(e, doc, parts)
    if got is None:
        return
    e.observe(got)
    shown = ''.join(p if isinstance(p, str) else '?' for p in src)
    e.check(got in ('TZ', 'EZ'), 'neither exactly the then-branch nor exactly the else-branch was processed: %r (%s)' % (got, shown), 'branch-exclusive')
    want = val if got == 'TZ' else api.not_(val)
    e.check(want, 'expression %s took the %s branch but denotes the opposite value' % (shown, 'then' if got == 'TZ' else 'else'), 'wrong-value')
    if t[0] != 'atom':
        e.nontriv()


WHILE_TESTS = {
    'macro-bound': None,          # the bound is a macro that the body redefines: see h_while
    'plain': '\\value{i}<\\nb',
    'parenthesised': '\\( \\value{i}<\\nb \\)',
    'and-group': '\\value{i}<\\nb \\and \\( 1=1 \\or 1=2 \\)',
    'not-group': '\\not \\( \\value{i}>\\nb \\or \\value{i}=\\nb \\)',
    'nested-groups': '\\( \\( \\value{i}<\\nb \\) \\)',
}


def h_while(e, nested=False, test='plain'):
    doc = _doc()
    n = e.char('n', 48, 54)
    parts = ['\\newcounter{i}\\setcounter{i}{0}\\def\\nb{', n, '}']
    if nested:
        m = e.char('m', 48, 50)
        parts += ['\\newcounter{j}\\def\\mb{', m, '}',
                  '\\whiledo{\\value{i}<\\nb}{X\\setcounter{j}{0}\\whiledo{\\value{j}<\\mb}{Y\\stepcounter{j}}\\stepcounter{i}}Z']
    elif test == 'macro-bound':
        # the test reads a macro that the body redefines in its n-th round (a guard counter bounds the loop should the definition get lost)
        parts = ['\\newcounter{i}\\newcounter{g}\\def\\go{1}\\def\\nb{', n, '}',
                 '\\whiledo{\\go=1 \\and \\value{g}<9}{X\\stepcounter{i}\\stepcounter{g}\\ifthenelse{\\value{i}<\\nb}{}{\\def\\go{0}}}Z[\\go]']
    else:
        parts += ['\\whiledo{' + WHILE_TESTS[test] + '}{X\\stepcounter{i}}Z \\(q\\)']          # \( \) are math delimiters again after the loop
    got = _run(e, doc, parts)
    if got is None:
        return
    e.observe(got)
    N = api.ord_(n) - 48
    if nested:
        M = api.ord_(m) - 48
        e.check(got.count('X') == N, 'outer loop ran %d times' % got.count('X'), 'loop-count')
        e.check(got.count('Y') == N * M, 'inner loop ran %d times in total' % got.count('Y'), 'loop-count')
    elif test == 'macro-bound':
        want = 1 if N <= 1 else N          # the body runs, then the definition it made ends the loop
        e.check(got.count('X') == want, 'loop whose test reads a macro redefined in its body ran %d times' % got.count('X'), 'loop-count:body-definition')
        e.check(got.endswith('[0]'), 'a definition made in the loop body is lost after the loop: %r' % got[-4:], 'loop-count:body-definition')
        e.nontriv()
        return
    else:
        e.check(got.count('X') == N, 'loop body ran %d times' % got.count('X'), 'loop-count')
    e.check((got.endswith('Z') or got.endswith('Zq')) and got.count('Z') == 1, 'text after the loop', 'loop-tail')
    e.nontriv()


def h_length(e):
    doc = _doc()
    units = ['pt', 'mm', 'cm']
    ua, ub = units[e.choice(3, 'ua')], units[e.choice(3, 'ub')]
    d = [e.char('l%d' % k, 48, 57) for k in range(3)]
    rel = e.char('rel', 60, 62)
    parts = ['\\ifthenelse{\\lengthtest{', d[0], d[1], ua, rel, d[2], ub, '}}{T}{E}Z']
    got = _run(e, doc, parts)
    if got is None:
        return
    e.observe(got)
    from fractions import Fraction
    ratio = {'pt': Fraction(1), 'mm': Fraction(7227, 2540), 'cm': Fraction(7227, 254)}
    a = ((api.ord_(d[0]) - 48) * 10 + (api.ord_(d[1]) - 48)) * ratio[ua].numerator * ratio[ub].denominator
    b = (api.ord_(d[2]) - 48) * ratio[ub].numerator * ratio[ua].denominator
    if api.eq(rel, '<'):
        v = a < b
    elif api.eq(rel, '>'):
        v = a > b
    else:
        v = a == b
    e.check(got in ('TZ', 'EZ'), 'branch text %r' % got, 'branch-exclusive')
    e.check(v if got == 'TZ' else api.not_(v), 'length test %s%s vs %s took the wrong branch' % (ua, '?', ub), 'wrong-value:lengthtest')
    e.nontriv()


def jobs(tier, seed):
    J = []

    def fam(family, chunk, spelling='lower', stride=1):
        n = len(shapes(family))
        for lo in range((seed % stride) * chunk if stride > 1 else 0, n, chunk * stride):
            J.append(dict(harness='h_expr', params=dict(family=family, lo=lo, hi=min(n, lo + chunk), spelling=spelling),
                          label='%s[%d:%d] %s' % (family, lo, min(n, lo + chunk), spelling)))
    fam('d2', 4)
    for t in WHILE_TESTS:
        J.append(dict(harness='h_while', params=dict(test=t), label='whiledo %s' % t, no_twin=t != 'plain'))
    J.append(dict(harness='h_length', params={}, label='lengthtest', split=3))
    if tier == 'quick':
        fam('d2', 4, 'upper', stride=3)
    else:
        fam('d2', 4, 'upper')
        fam('d3', 12, stride=8)
        fam('chains4', 8)
        J.append(dict(harness='h_while', params=dict(nested=True), label='whiledo nested'))
    return J
