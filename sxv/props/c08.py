"""C08  Counters and automatic numbers follow LaTeX's numbering rules.

(1) representations: Counter.arabic/Roman/roman/Alph/alph (numToRoman) on a symbolic counter value; the produced numeral is
    decoded by an independent reader and must give back the value (z3 proves it on every path).
(2) reset hierarchy: \\newcounter{x}[y] graphs and histories of \\stepcounter/\\setcounter/\\addtocounter/\\refstepcounter written as
    LaTeX source with symbolic operands, compared with a transitive-reset model; \\the<counter> formats incl. nested formats.
(3) numbered objects: article/book skeletons (sections to 3 levels with a symbolic star character, equations, captions,
    nested enumerate, \\setcounter with a symbolic value, \\appendix) through the real parser; every numbered node's printed
    number is compared with LaTeX's rule for every numbering depth."""
import itertools
from sxv import api
from sxv.api import Src, eq, ord_
from sxv.props import common

import plasTeX
from plasTeX import TeXDocument, Counter
from plasTeX.TeX import TeX

PROP = 'C08'
LEVEL = 'model_checking'
FUNCTIONS = ['plasTeX:numToRoman', 'plasTeX:Counter.stepcounter', 'plasTeX:Counter.setcounter', 'plasTeX:Counter.addtocounter', 'plasTeX:Counter.resetcounters',
             'plasTeX:Counter.arabic', 'plasTeX:Counter.Roman', 'plasTeX:Counter.roman', 'plasTeX:Counter.Alph', 'plasTeX:Counter.alph', 'plasTeX:TheCounter.invoke',
             'plasTeX:Macro.preParse', 'plasTeX:Macro.preArgument', 'plasTeX:Macro.postArgument', 'plasTeX:Macro.stepcounter', 'plasTeX:Macro.refstepcounter',
             'plasTeX:Macro.postParse', 'plasTeX.Context:Context.newcounter', 'plasTeX.Base.LaTeX.Numbering:setcounter.invoke',
             'plasTeX.Base.LaTeX.Numbering:addtocounter.invoke', 'plasTeX.Base.LaTeX.Numbering:stepcounter.invoke', 'plasTeX.Base.LaTeX.Lists:List.invoke',
             'plasTeX.Base.LaTeX.Lists:List.item.invoke', 'plasTeX.Packages.book:ProcessOptions', 'plasTeX.Packages.article:ProcessOptions']
RULE = ('one evaluation = one path; representations: one numeral shape (the comparisons of numToRoman pin the value); histories: one reset graph x one operation history x '
        'one class of operand values; documents: one skeleton x star pattern x depth; non-trivial = numeral of >= 2 symbols, or a history/document with >= 2 numbering events')
BOUNDS = {
    'quick': 'roman/Roman for every value 1..1100 and 3900..4999, Alph/alph 1..26, arabic for -999..99999; all acyclic reset graphs over <= 3 counters x histories of 3 operations '
             'with symbolic operands; 2 article skeletons and 1 book skeleton with symbolic stars, numbering depth 0..3',
    'thorough': 'roman/Roman for every value 1..4999; reset graphs over <= 4 counters x histories of 4 operations; 4 skeletons x depth -1..4 with \\setcounter and \\appendix',
}
ASSUMPTIONS = ['LaTeX\'s rules as stated in the property: stepping/setting a counter resets every counter declared within it, transitively; numbered iff unstarred and level <= depth',
               'article: section N, subsection N.M, equation n, caption n; book: chapter C, section C.S, equation C.E']
OUTSIDE = ['which macro of which package owns which counter beyond the constructs in the skeletons (amsthm, eqnarray rows, \\nonumber)', 'fnsymbol']
BUDGET_S = {'quick': 900, 'thorough': 3300}


def reset():
    common.reset_parser_state()


# ------------------------------------------------------------------------------------------- (1) representations
ROM = {'I': 1, 'V': 5, 'X': 10, 'L': 50, 'C': 100, 'D': 500, 'M': 1000}


def roman_decode(s):
    """independent reader: subtractive notation, must also be canonical (re-encoding by the greedy table gives the same string)"""
    total = 0
    s = s.upper()
    for i, ch in enumerate(s):
        v = ROM[ch]
        if i + 1 < len(s) and ROM[s[i + 1]] > v:
            total -= v
        else:
            total += v
    return total


CANON = [(1000, 'M'), (900, 'CM'), (500, 'D'), (400, 'CD'), (100, 'C'), (90, 'XC'), (50, 'L'), (40, 'XL'), (10, 'X'), (9, 'IX'), (5, 'V'), (4, 'IV'), (1, 'I')]


def roman_canonical(s):
    # canonical <=> no symbol more than 3 times in a row (M excepted), subtractive pairs only from the table
    import re
    return re.fullmatch(r'M*(CM|CD|D?C{0,3})(XC|XL|L?X{0,3})(IX|IV|V?I{0,3})', s.upper()) is not None


def h_roman(e, lo, hi, lower):
    doc = TeXDocument()
    v = e.int('v', lo, hi)
    c = Counter(doc.context, 'x', None, v)
    try:
        s = c.roman if lower else c.Roman
    except (IndexError, ValueError, TypeError) as ex:
        e.fail_exception(ex)
        return
    s = api.str_(s) if api.is_sym(s) else s
    e.observe(s)
    e.check(isinstance(s, str) and len(s) > 0, 'numeral is not a plain string', 'roman-shape')
    e.check((s == s.lower()) if lower else (s == s.upper()), 'numeral case', 'roman-case')
    e.check(roman_canonical(s), 'numeral %r is not in standard form' % s, 'roman-form')
    e.check(v == roman_decode(s), 'numeral %r does not denote the counter value' % s, 'roman-value')
    if len(s) >= 2:
        e.nontriv()


def h_alph(e, lower):
    doc = TeXDocument()
    v = e.int('v', 1, 26)
    c = Counter(doc.context, 'x', None, v)
    try:
        s = c.alph if lower else c.Alph
    except (IndexError, ValueError, TypeError) as ex:
        e.fail_exception(ex)
        return
    e.observe(s)
    base = 96 if lower else 64
    e.check(len(s) == 1 and v == ord_(s) - base, 'letter %r does not denote the counter value' % (s,), 'alph-value')
    e.nontriv()


def h_arabic(e):
    doc = TeXDocument()
    v = e.int('v', -999, 99999)
    c = Counter(doc.context, 'x', None, v)
    s = c.arabic
    s = api.str_(s)
    cs = api.chars(s)
    # decode
    neg = len(cs) > 0 and bool(eq(cs[0], '-'))
    ds = cs[1:] if neg else cs
    val = 0
    for d in ds:
        val = val * 10 + (ord_(d) - 48)
    e.check(len(ds) >= 1 and api.all_([api.and_(ord_(d) >= 48, ord_(d) <= 57) for d in ds]), 'arabic digits', 'arabic-form')
    e.check(v == (-val if neg else val), 'arabic numeral does not denote the value', 'arabic-value')
    e.check(len(ds) == 1 or api.not_(eq(ds[0], '0')), 'leading zero', 'arabic-form')
    if len(ds) >= 2:
        e.nontriv()


# ------------------------------------------------------------------------------------------- (2) reset hierarchy
NAMES = ['ca', 'cb', 'cc', 'cd']


def graphs(n):
    """acyclic reset graphs over n counters: parent[i] in {None, 0..i-1}"""
    opts = [[None] + list(range(i)) for i in range(n)]
    return list(itertools.product(*opts))


OPS = ['step', 'set', 'add', 'refstep']


def h_reset(e, n, parents, nops):
    doc = TeXDocument()
    parents = list(parents)
    src = []
    for i in range(n):
        src.append('\\newcounter{%s}%s' % (NAMES[i], '' if parents[i] is None else '[%s]' % NAMES[parents[i]]))
    # start from arbitrary values
    model = []
    for i in range(n):
        d = e.char('init%d' % i, 48, 57)
        src += ['\\setcounter{%s}{' % NAMES[i], d, '}']
        model.append(ord_(d) - 48)
    # the \setcounter prologue itself resets dependants: replay it on the model

    def children(i):
        return [j for j in range(n) if parents[j] == i]

    def reset_below(vals, i):
        for j in children(i):
            vals[j] = 0
            reset_below(vals, j)
    vals = [0] * n
    for i in range(n):
        vals[i] = model[i]
        reset_below(vals, i)
    nev = 0
    for k in range(nops):
        op = OPS[e.choice(len(OPS), 'op%d' % k)]
        t = e.choice(n, 'tgt%d' % k)
        if op == 'step' or op == 'refstep':
            src.append('\\%scounter{%s}' % (op, NAMES[t]))
            vals[t] = vals[t] + 1
        else:
            d = e.char('arg%d' % k, 48, 57)
            neg = op == 'add' and k % 2 == 1
            src += ['\\%scounter{%s}{' % ('set' if op == 'set' else 'addto', NAMES[t])] + (['-'] if neg else []) + [d, '}']
            dv = ord_(d) - 48
            if op == 'set':
                vals[t] = dv
            else:
                vals[t] = vals[t] - dv if neg else vals[t] + dv
        if op in ('step', 'refstep'):
            reset_below(vals, t)              # LaTeX: only stepping resets the counters declared within; \setcounter and \addtocounter are plain assignments
        nev += 1
    # print every counter: \arabic{x} separated by commas, plus the value API
    if n == 2:
        for i in range(n):
            src += ['[\\arabic{%s}]' % NAMES[i]]
    chars = []
    for p in src:
        chars.extend(api.chars(p))
    tex = TeX(doc)
    tex.input(Src(chars))
    try:
        out = tex.parse()
    except (KeyError, ValueError, TypeError, IndexError, AttributeError) as ex:
        e.fail_exception(ex)
        return
    got = [doc.context.counters[NAMES[i]].value for i in range(n)]
    e.observe([g for g in got])
    for i in range(n):
        e.check(got[i] == vals[i], 'counter %s: value differs from the transitive-reset model (graph %s)' % (NAMES[i], parents), 'reset-value')
    if nev >= 2:
        e.nontriv()


def h_format(e):
    """nested \\the formats:  x within y within z with formats ${thez}.${y} etc. and a Roman/alph component"""
    doc = TeXDocument()
    ctx = doc.context
    ctx.newcounter('za', format='${za.Roman}')
    ctx.newcounter('zb', resetby='za', format='${theza}.${zb}')
    ctx.newcounter('zc', resetby='zb', format='${thezb}-${zc.alph}')
    ctx.newcounter('zf', format='${za}.${zf}', trimLeft=True)
    a, b, c = e.int('a', 0, 12), e.int('b', 0, 30), e.int('c', 1, 26)
    ctx.counters['za'].value, ctx.counters['zb'].value, ctx.counters['zc'].value = a, b, c
    ctx.counters['zf'].value = b
    tex = TeX(doc)
    tex.input(Src(list('\\thezc|\\thezf|')))
    try:
        txt = tex.parse().textContent
    except (KeyError, ValueError, TypeError, IndexError, AttributeError) as ex:
        e.fail_exception(ex)
        return
    txt = api.text_of(txt)
    parts = api.str_(txt).split('|') if not isinstance(txt, str) else txt.split('|')
    e.check(len(parts) == 3, 'format output %r' % (txt,), 'format-shape')
    if len(parts) != 3:
        return
    p0 = parts[0]
    # <Roman a>.<b>-<alph c>
    cs = api.chars(p0)
    dot = [i for i, ch in enumerate(cs) if bool(eq(ch, '.'))]
    dash = [i for i, ch in enumerate(cs) if bool(eq(ch, '-'))]
    e.check(len(dot) == 1 and len(dash) == 1 and dot[0] < dash[0], 'nested format structure', 'format-shape')
    if not (len(dot) == 1 and len(dash) == 1 and dot[0] < dash[0]):
        return
    rom = api.cat(cs[:dot[0]])
    num = cs[dot[0] + 1:dash[0]]
    let = cs[dash[0] + 1:]
    rom_s = rom if isinstance(rom, str) else None
    e.check(rom_s is not None and (a == (roman_decode(rom_s) if rom_s else 0)), 'Roman component', 'format-roman')
    val = 0
    for d in num:
        val = val * 10 + (ord_(d) - 48)
    e.check(len(num) >= 1 and b == val, 'arabic component', 'format-arabic')
    e.check(len(let) == 1 and c == ord_(let[0]) - 96, 'alph component', 'format-alph')
    # trimLeft: "0." prefix removed
    p1 = api.chars(parts[1])
    if a == 0:
        val = 0
        for d in p1:
            val = val * 10 + (ord_(d) - 48)
        e.check(api.all_([api.not_(eq(ch, '.')) for ch in p1]) and b == val, 'trimLeft did not remove the leading 0.', 'format-trim')
    else:
        e.check(any(bool(eq(ch, '.')) for ch in p1), 'trimLeft removed a non-zero prefix', 'format-trim')
    e.nontriv()


# ------------------------------------------------------------------------------------------- (3) documents
SKELETONS = {
    'art1': ('article', ['S', 'SS', 'SS', 'SSS', 'S', 'EQ', 'SS', 'EQ', 'FIG', 'S']),
    'art2': ('article', ['S', 'ENUM', 'SS', 'SET', 'S', 'SS', 'APP', 'S', 'SS']),
    'art3': ('article', ['EQN', 'S', 'EQ', 'EQNN', 'EQ', 'EQN', 'EQNN', 'EQ']),
    'thm': ('article', ['THMDEF', 'S', 'THM', 'LEM', 'COR', 'S', 'LEM', 'THM', 'COR', 'SS', 'THM', 'SET', 'S', 'THM']),
    'thm2': ('article', ['THMDEF:subsection', 'S', 'SS', 'THM', 'LEM', 'SS', 'THM', 'COR', 'S', 'SS', 'LEM']),
    'bookthm': ('book', ['THMDEF:section', 'C', 'S', 'THM', 'LEM', 'COR', 'S', 'THM', 'C', 'S', 'LEM']),
    'bookthm2': ('book', ['THMDEF:chapter', 'C', 'THM', 'S', 'LEM', 'C', 'THM', 'COR']),
    'book1': ('book', ['C', 'S', 'EQ', 'SS', 'C', 'EQ', 'S', 'FIG', 'S']),
    'book0': ('book', ['EQ', 'FIG', 'EQ', 'C', 'EQ', 'FIG']),          # numbered objects before the first chapter
    'book2': ('book', ['C', 'S', 'SET', 'S', 'APP', 'C', 'S']),
}
LEVELS = {'C': 0, 'S': 1, 'SS': 2, 'SSS': 3}
CMD = {'C': 'chapter', 'S': 'section', 'SS': 'subsection', 'SSS': 'subsubsection'}


def h_doc(e, skel, depth):
    cls, items = SKELETONS[skel]
    doc = TeXDocument()
    doc.config['document']['sec-num-depth'] = depth
    src = ['\\documentclass{%s}\\begin{document}' % cls]
    cnt = {'chapter': 0, 'section': 0, 'subsection': 0, 'subsubsection': 0, 'equation': 0, 'figure': 0, 'thm': 0, 'cor': 0}
    appendix = False
    expect = []          # (nodeName, expected ref text or None)
    below = {'chapter': ['section', 'equation', 'figure'], 'section': ['subsection'], 'subsection': ['subsubsection'], 'subsubsection': []}
    within = [None]
    for it in items:
        if it.startswith('THMDEF'):
            within[0] = it.partition(':')[2] or 'section'
            below[within[0]] = below[within[0]] + ['thm']

    def reset_below(name):
        for ch in below.get(name, []):
            cnt[ch] = 0
            reset_below(ch)

    def the(name):
        if name == 'chapter':
            return _alph(cnt['chapter']) if appendix and cls == 'book' else _num(cnt['chapter'])
        if name == 'section':
            s = _alph(cnt['section']) if appendix and cls == 'article' else _num(cnt['section'])
            return (the('chapter') + ['.'] + s) if cls == 'book' else s
        if name == 'subsection':
            return the('section') + ['.'] + _num(cnt['subsection'])
        if name == 'subsubsection':
            return the('subsection') + ['.'] + _num(cnt['subsubsection'])
        if name in ('equation', 'figure'):
            if cls == 'book' and not cnt['chapter'] == 0:       # LaTeX (book.cls: \ifnum\c@chapter>\z@ \thechapter.\fi) omits the chapter part while it is 0, for equations as for floats
                return the('chapter') + ['.'] + _num(cnt[name])
            return _num(cnt[name])
    k = 0
    for it in items:
        if it in LEVELS:
            if it == 'C' and cnt['chapter'] == 0 and not appendix and k == 0:
                star = ' '                   # the first chapter is numbered (so that no equation precedes chapter 1)
            else:
                star = e.char('star%d' % k, 32, 42)
                e.assume(e.one_of(star, '* '))
            k += 1
            src += ['\\%s' % CMD[it], star, '{T}x ']
            if eq(star, '*') or LEVELS[it] > depth:
                expect.append((CMD[it], None))             # LaTeX: starred units and units deeper than the numbering depth leave their counter alone
            else:
                cnt[CMD[it]] = cnt[CMD[it]] + 1
                reset_below(CMD[it])
                try:
                    expect.append((CMD[it], the(CMD[it])))
                except _OutOfRange:
                    expect.append((CMD[it], 'skip'))
        elif it == 'EQ':
            src.append('\\begin{equation}y\\end{equation}')
            cnt['equation'] = cnt['equation'] + 1
            try:
                expect.append(('equation', the('equation')))
            except _OutOfRange:
                expect.append(('equation', 'skip'))
        elif it == 'EQNN':
            # an equation with \nonumber: no number, and the next equation continues the count
            src.append('\\begin{equation}y\\nonumber\\end{equation}')
            expect.append(('equation', None))
        elif it.startswith('THMDEF'):
            # theorem numbered within a sectioning unit, lemma sharing the theorem counter, corollary with its own counter
            src[0] = src[0].replace('\\begin{document}', '\\newtheorem{thm}{Theorem}[%s]\\newtheorem{lem}[thm]{Lemma}\\newtheorem{theorem}{Corollary}\\begin{document}' % within[0])
        elif it in ('THM', 'LEM'):
            src.append('\\begin{%s}t\\end{%s}' % (it.lower(), it.lower()))
            cnt['thm'] = cnt['thm'] + 1
            expect.append(('thmenv', the(within[0]) + ['.'] + _num(cnt['thm'])))
        elif it == 'COR':
            src.append('\\begin{theorem}t\\end{theorem}')          # an environment whose counter name starts with "the"
            cnt['cor'] = cnt['cor'] + 1
            expect.append(('thmenv', _num(cnt['cor'])))
        elif it == 'EQN':
            # eqnarray with three rows, \\nonumber on one of them (or none)
            nn = e.choice(4, 'nonumber%d' % k)
            k += 1
            rows = []
            for r in range(3):
                rows.append('a&=&b' + ('\\nonumber ' if r == nn else ''))
            src.append('\\begin{eqnarray}' + '\\\\'.join(rows) + '\\end{eqnarray}')
            for r in range(3):
                if r == nn:
                    expect.append(('ArrayRow', None))
                else:
                    cnt['equation'] = cnt['equation'] + 1
                    expect.append(('ArrayRow', the('equation')))
        elif it == 'FIG':
            src.append('\\begin{figure}\\caption{F}\\end{figure}')
            cnt['figure'] = cnt['figure'] + 1
            try:
                expect.append(('caption', the('figure')))
            except _OutOfRange:
                expect.append(('caption', 'skip'))
        elif it == 'ENUM':
            src.append('\\begin{enumerate}\\item a\\item b\\begin{enumerate}\\item c\\item d\\end{enumerate}\\item e\\end{enumerate}'
                       '\\begin{enumerate}\\item f\\end{enumerate}')
            for r in ('1', '2', '1', '2', '3', '1'):
                expect.append(('item', list(r)))
        elif it == 'SET':
            d = e.char('set%d' % k, 48, 57)
            k += 1
            src += ['\\setcounter{section}{', d, '}']
            cnt['section'] = ord_(d) - 48          # a plain assignment: subsection and theorem counters keep their values
        elif it == 'APP':
            src.append('\\appendix ')
            appendix = True
            top = 'chapter' if cls == 'book' else 'section'
            cnt[top] = 0
            reset_below(top)
    src.append('\\end{document}')
    chars = []
    for p in src:
        chars.extend(api.chars(p))
    tex = TeX(doc)
    tex.input(Src(chars))
    try:
        out = tex.parse()
    except (KeyError, ValueError, TypeError, IndexError, AttributeError) as ex:
        e.fail_exception(ex)
        return
    got = []
    names = set(n for n, _ in expect)

    def walk(n):
        for c in n.childNodes:
            if getattr(c, 'nodeType', None) == 1:
                if c.nodeName in names:
                    r = getattr(c, 'ref', None)
                    got.append((c.nodeName, None if r is None else api.text_of(r.textContent)))
                walk(c)
    walk(out)
    e.observe([[n, t] for n, t in got])
    e.check(len(got) == len(expect), 'numbered objects found: %d, expected %d' % (len(got), len(expect)), 'doc-structure')
    if len(got) != len(expect):
        return
    for (gn, gt), (en, et) in zip(got, expect):
        e.check(gn == en, 'object order: %s vs %s' % (gn, en), 'doc-structure')
        if et == 'skip':
            continue
        if et is None:
            e.check(gt is None, '%s carries number %r although it is starred or deeper than the numbering depth' % (en, gt), 'number-present')
        else:
            e.check(gt is not None, '%s has no number although it is unstarred and within the numbering depth' % en, 'number-missing')
            if gt is not None:
                e.check(eq(gt, api.cat(et)), 'number of %s differs from LaTeX\'s rule' % en, 'number-value')
    e.nontriv()


def _num(v):
    """decimal digits of a (possibly symbolic) small non-negative integer as a list of chars"""
    if isinstance(v, int):
        return list(str(v))
    if v < 10:
        return [api.chr_(v + 48)]
    return [api.chr_(v // 10 + 48), api.chr_(v % 10 + 48)]


class _OutOfRange(Exception):
    pass


def _alph(v):
    if isinstance(v, int):
        if not 1 <= v <= 26:
            raise _OutOfRange()             # \Alph of 0 (appendix unit not yet stepped): outside the claimed range 1..26
        return [chr(64 + v)]
    return [api.chr_(v + 64)]


def jobs(tier, seed):
    J = []
    q = tier == 'quick'
    ranges = [(1, 1100), (3900, 4999)] if q else [(1, 4999)]
    for lo, hi in ranges:
        step = 100
        for a in range(lo, hi + 1, step):
            for lower in (False, True):
                if q and lower and a > 400:
                    continue
                J.append(dict(harness='h_roman', params=dict(lo=a, hi=min(hi, a + step - 1), lower=lower), label='roman %d-%d %s' % (a, min(hi, a + step - 1), lower), no_twin=a > 300))
    for lower in (False, True):
        J.append(dict(harness='h_alph', params=dict(lower=lower), label='alph %s' % lower))
    J.append(dict(harness='h_arabic', params={}, label='arabic'))
    J.append(dict(harness='h_format', params={}, label='nested formats', split=3))
    for n in ((2, 3) if q else (2, 3, 4)):
        for g in graphs(n):
            nops = 3 if (q or n == 4) else 4
            J.append(dict(harness='h_reset', params=dict(n=n, parents=list(g), nops=nops), label='reset n=%d %s ops=%d' % (n, g, nops), no_twin=n > 2))
    sk = ['art1', 'art2', 'art3', 'thm', 'thm2', 'bookthm', 'bookthm2', 'book1', 'book0'] if q else list(SKELETONS)
    for s in sk:
        for depth in ((0, 1, 2, 3) if q else (-1, 0, 1, 2, 3, 4)):
            J.append(dict(harness='h_doc', params=dict(skel=s, depth=depth), label='doc %s depth=%d' % (s, depth), split=3, no_twin=depth != 2))
    return J
