"""C11  Verbatim text and mathematics pass through character-for-character.

(a) verbatim environment: bodies made of symbolic characters, alone and placed after/before every proper prefix of the end marker
    (so partial end markers - `\\end{verbatix`, `\\en`, a lone backslash - are feasible branches by construction); real code:
    VerbatimEnvironment.invoke (end-pattern scan), Context.setVerbatimCatcodes, the lexer; text after the environment must be
    processed normally again.
(b) \\verb with a symbolic delimiter and symbolic body.
(c) math source: formula skeletons with symbolic letters in $ $, \\( \\), \\[ \\], equation; node.source is re-tokenised by the
    real lexer and must equal, blanks aside, token for token what was written with user macros expanded."""
import itertools
from sxv import api
from sxv.api import Src, eq
from sxv.props import common

from plasTeX import TeXDocument
from plasTeX.TeX import TeX

PROP = 'C11'
LEVEL = 'model_checking'
FUNCTIONS = ['plasTeX:VerbatimEnvironment.invoke', 'plasTeX.Context:Context.setVerbatimCatcodes', 'plasTeX.Base.LaTeX.Verbatim:verb.invoke', 'plasTeX.Base.LaTeX.Verbatim:verb.digest',
             'plasTeX.Base.LaTeX.Verbatim:verb.normalize', 'plasTeX:NoCharSubEnvironment.normalize', 'plasTeX:Macro.source', 'plasTeX:sourceChildren', 'plasTeX:sourceArguments',
             'plasTeX:Macro.parse', 'plasTeX.Tokenizer:EscapeSequence.source', 'plasTeX.Base.LaTeX.Math:math.source', 'plasTeX.Base.LaTeX.Math:displaymath.source',
             'plasTeX.Base.TeX.Primitives:MathShift.invoke', 'plasTeX.Base.TeX.Primitives:SuperScript.invoke', 'plasTeX.Base.TeX.Primitives:SubScript.invoke',
             'plasTeX.TeX:TeX.readToken', 'plasTeX.TeX:TeX.source', 'plasTeX.Tokenizer:Tokenizer.__iter__']
RULE = ('one evaluation = one path = one body/formula skeleton x one class of its symbolic characters; non-trivial = a body containing a partial end marker or special character, '
        'a formula with a script, fraction or macro')
BOUNDS = {
    'quick': 'verbatim bodies of <= 3 arbitrary symbolic characters; every proper prefix of \\end{verbatim} followed and preceded by 1 symbolic character; \\verb with a symbolic punctuation '
             'delimiter and 2 symbolic body characters, starred and not; 30 formula skeletons (scripts with groups and single tokens, nested fractions, roots, control words before '
             'letters, user macros as unbraced arguments, text boxes) x 4 math environments with symbolic letters',
    'thorough': 'bodies of <= 4 characters, two symbolic characters around every prefix; 3 body characters for \\verb; all skeletons in all environments',
}
ASSUMPTIONS = ['verbatim bodies do not contain the complete end delimiter (property text); the text of the plain-TeX form \\endverbatim is also outside the generated bodies',
               '\\verb delimiters: every printable ASCII character except letters, blank, * and { (plasTeX pairs { with })',
               'math source is compared token for token after re-lexing with the real tokenizer, space tokens ignored']
OUTSIDE = ['\\verb with the superscript character as delimiter and an empty body (\\verb^^: the look-ahead after the control word decodes ^^X first)', 'amsmath environments (cases, align, ...) inside formulas', 'math rendered to images']
BUDGET_S = {'quick': 900, 'thorough': 3300}

END = '\\end{verbatim}'


def reset():
    common.reset_parser_state()


def _parse(e, chars):
    doc = TeXDocument()
    tex = TeX(doc)
    tex.input(Src(chars))
    try:
        return doc, tex.parse()
    except (KeyError, ValueError, TypeError, IndexError, AttributeError) as ex:
        e.fail_exception(ex)
        return doc, None


def _first_end(full):
    """index of the first complete end marker in `full` (list of chars)"""
    n = len(END)
    for k in range(0, len(full) - n + 1):
        if api.all_([eq(a, b) for a, b in zip(full[k:k + n], END)]):
            return k
    return None


def h_verbatim(e, pre, nsym_before, nsym_after, star=False, indoc=False):
    """\\begin{verbatim} <sym_before> <pre = concrete prefix of the end marker> <sym_after> \\end{verbatim} xy"""
    name = 'verbatim*' if star else 'verbatim'
    b = [e.char('b%d' % i) for i in range(nsym_before)]
    a = [e.char('a%d' % i) for i in range(nsym_after)]
    for c in b + a:
        e.assume(e.none_of(c, '\x00'))
    body = b + list(pre) + a
    endm = '\\end{%s}' % name
    src = list('\\begin{%s}' % name) + body + list(endm) + list('xy')
    if indoc:
        src = list('\\documentclass{article}\\begin{document}\\section{T}p\n\n') + src + list('\\end{document}')
    full = body + list(endm)
    n = len(endm)
    first = None
    for k in range(0, len(full) - n + 1):
        if api.all_([eq(x, y) for x, y in zip(full[k:k + n], endm)]):
            first = k
            break
    if first is None or first < len(body):
        e.tag('contains-end-marker')           # the body itself contains the complete end delimiter: outside the property
        return
    doc, out = _parse(e, src)
    if out is None:
        return
    vs = out.getElementsByTagName(name)
    e.check(len(vs) == 1, 'verbatim nodes: %d' % len(vs), 'verbatim-structure')
    if len(vs) != 1:
        return
    got = api.text_of(vs[0].textContent)
    e.observe(got)
    e.check(len(api.chars(got)) == len(body) and api.all_([eq(x, y) for x, y in zip(api.chars(got), body)]),
            'verbatim content differs from the characters between the delimiters (body = %r + %d/%d symbolic)' % (pre, nsym_before, nsym_after), 'verbatim-body')
    # text after it is processed normally again
    rest = []
    seen = False
    for c in out.childNodes:
        if c is vs[0] or (getattr(c, 'nodeType', None) == 1 and vs[0] in getattr(c, 'allChildNodes', [])):
            seen = True
    whole = api.text_of(out.textContent)
    wc = api.chars(whole)
    e.check(len(wc) >= 2 and eq(wc[-2], 'x') and eq(wc[-1], 'y'), 'text after the environment is not processed normally', 'verbatim-after')
    e.check(len(doc.context.contexts) <= 2, 'context stack not restored after verbatim', 'verbatim-after')
    if pre or nsym_before + nsym_after >= 2:
        e.nontriv()


def h_verb(e, nbody, star, indoc=False):
    d = e.char('delim', 33, 126)
    e.assume(e.none_of(d, '* {'))          # any character except a letter, a blank and * (property: all \\verb delimiters); { pairs with } in plasTeX
    e.assume(api.not_(api.or_(e.between(d, 65, 90), e.between(d, 97, 122))))
    if nbody == 0:
        e.assume(e.none_of(d, '^'))          # \verb^^... : the lexer's look-ahead decodes ^^X before \verb can switch the category codes (stated in OUTSIDE)
    body = []
    for i in range(nbody):
        c = e.char('v%d' % i, 32, 126)
        e.assume(api.not_(eq(c, d)))
        body.append(c)
    src = list('p \\verb') + (['*'] if star else []) + [d] + body + [d] + list('\\emph{q} r')
    if indoc:
        # inside a sectioned document with a paragraph break (paragraph grouping and normalisation run)
        src = list('\\documentclass{article}\\begin{document}\\section{T}') + src + list('\n\nnext\\end{document}')
    doc, out = _parse(e, src)
    if out is None:
        return
    vs = out.getElementsByTagName('verb')
    e.check(len(vs) == 1, 'verb nodes: %d' % len(vs), 'verb-structure')
    if len(vs) != 1:
        return
    got = api.text_of(vs[0].textContent)
    e.observe(got)
    e.check(len(api.chars(got)) == len(body) and api.all_([eq(x, y) for x, y in zip(api.chars(got), body)]), '\\verb content differs from the characters between the delimiters', 'verb-body')
    em = out.getElementsByTagName('emph')
    e.check(len(em) == 1 and str(em[0].textContent) == 'q', 'text after \\verb is not processed normally (an \\emph after it is not a command any more)', 'verb-after')
    e.nontriv()


# ------------------------------------------------------------------------------------------- math source
# skeletons use A B C D for symbolic letters and plain TeX otherwise; MACROS are defined before the formula
MACROS = '\\def\\ua{\\alpha}\\newcommand{\\uR}{\\mathbb{R}}\\def\\uh{\\frac12}'
FORMULAS = [
    'A', 'A+B', 'A^B', 'A_B', 'A^{BC}', 'A_{BC}^{D}', 'A^B_C', '{A}^{B}', 'A^{B^{C}}', '\\alpha A', '\\alpha+\\beta', '\\alpha_A', 'A_\\alpha',
    '\\frac{A}{B}', '\\frac AB', '\\frac A{B+C}', '\\frac A2', '\\frac{A}{\\frac{B}{C}}', 'A^{\\frac B2}', '\\sqrt{A}', '\\sqrt A', '\\sqrt[3]{A}',
    '\\mathcal A', '\\mathbf{AB}', '\\mbox{A B}', '\\textrm{A}', '\\left(A\\right)', 'A<B', 'A>B', 'A\\le B', '\\sum_{A=1}^{B}C',
    'A^\\pi B', '\\frac\\alpha\\beta A', '\\sqrt[A]\\pi B', '\\left\\langle A\\right\\rangle B', 'A_\\alpha\\beta', '\\mathcal\\alpha A',
    "A'", "A''+B'", "A'^B", 'A--B', "{A'}", "{A}'_{B''}",
    '\\begin{array}{cc}A&B\\\\C&D\\end{array}', '\\begin{array}{|c|}\\hline A\\\\\\hline\\end{array}', '\\begin{array}{c}A\\\\ \\hline B\\\\ \\cline{1-1}\\end{array}',
    '\\left(\\begin{array}{c}A\\\\B\\end{array}\\right)', '\\begin{array}{c}A\\\\ \\\\ \\hline B\\end{array}',
    '{}^{A}B', 'A{}B', '\\mbox{A{}B}', 'A^{}_{B}', '{}_A{}^B',
    'A_\\ua', 'A^\\uR', '\\frac\\ua\\uh', '\\sqrt\\uh', '\\uR^A', 'A^{\\uR}', '\\ua A',
]
ENVS = [('$', '$'), ('\\(', '\\)'), ('\\[', '\\]'), ('\\begin{equation}', '\\end{equation}'), ('\\begin{eqnarray}', '\\end{eqnarray}')]
EXPAND = {'\\ua': '\\alpha ', '\\uR': '\\mathbb{R}', '\\uh': '\\frac12'}


def _lex(chars):
    t = TeX(TeXDocument())
    t.input(Src(chars))
    out = []
    for x in t.itertokens():
        if x.catcode == 10:
            continue
        out.append([x.catcode, api.text_of(x)])
    return out


def h_math(e, lo, hi, env):
    F = FORMULAS[lo:hi]
    f = F[e.choice(len(F), 'formula')]
    sym = {}
    written = []
    expanded = []
    i = 0
    while i < len(f):
        ch = f[i]
        if ch in 'ABCD':
            if ch not in sym:
                sym[ch] = e.char('m' + ch, 97, 122)
            written.append(sym[ch])
            expanded.append(sym[ch])
            i += 1
            continue
        hit = None
        for k, v in EXPAND.items():
            if f.startswith(k, i) and not f[i + len(k):i + len(k) + 1].isalpha():
                hit = (k, v)
                break
        if hit:
            written.extend(hit[0])
            expanded.extend(hit[1])
            i += len(hit[0])
            # a control word swallows following blanks
            continue
        written.append(ch)
        expanded.append(ch)
        i += 1
    op, cl = ENVS[env]
    src = list(MACROS) + list('p ') + list(op) + written + list(cl) + list(' q')
    doc, out = _parse(e, src)
    if out is None:
        return
    name = {0: 'math', 1: 'math', 2: 'displaymath', 3: 'equation', 4: 'eqnarray'}[env]
    ms = out.getElementsByTagName(name)
    e.check(len(ms) == 1, '<%s> nodes: %d (formula %s)' % (name, len(ms), f), 'math-structure')
    if len(ms) != 1:
        return
    try:
        srcs = ms[0].source
    except (KeyError, ValueError, TypeError, IndexError, AttributeError) as ex:
        e.fail_exception(ex)
        return
    got = _lex(api.chars(api.text_of(srcs)))
    want = _lex(list(op) + expanded + list(cl))
    # the environment delimiters may be spelled differently in the reconstructed source ($..$ vs \\(..\\)): compare the payload
    gp = _payload(got)
    wp = _payload(want)
    e.observe([[c, t] for c, t in gp])
    shown = f
    e.check(len(gp) == len(wp), 'reconstructed source of %s has %d tokens, the formula (macros expanded) has %d' % (shown, len(gp), len(wp)), 'math-source-length')
    if len(gp) == len(wp):
        e.check(api.all_([ca == cb and (eq(ta, tb) is True or (eq(ta, tb) is not False and eq(ta, tb))) for (ca, ta), (cb, tb) in zip(gp, wp)]),
                'reconstructed source of %s differs token for token from what was written' % shown, 'math-source')
    e.nontriv()


def _payload(toks):
    """drop the opening/closing math delimiters of a re-lexed source"""
    t = list(toks)
    def is_cs(x, n):
        return x[0] == 0 and isinstance(x[1], str) and x[1] == n
    if t and t[0][0] == 3:
        t = t[1:]
        if t and t[0][0] == 3:
            t = t[1:]
        while t and t[-1][0] == 3:
            t = t[:-1]
        return t
    if t and (is_cs(t[0], '(') or is_cs(t[0], '[')):
        return t[1:-1]
    if len(t) >= 4 and is_cs(t[0], 'begin'):
        # \begin{equation} ... \end{equation}
        k = 1
        while k < len(t) and t[k][0] != 2:
            k += 1
        j = len(t) - 1
        while j > 0 and not is_cs(t[j], 'end'):
            j -= 1
        return t[k + 1:j]
    return t


def jobs(tier, seed):
    J = []
    q = tier == 'quick'
    for L in ((0, 1, 2, 3) if q else (0, 1, 2, 3, 4)):
        J.append(dict(harness='h_verbatim', params=dict(pre='', nsym_before=L, nsym_after=0), label='verbatim free L=%d' % L, no_twin=L != 2))
    for k in range(1, len(END)):
        J.append(dict(harness='h_verbatim', params=dict(pre=END[:k], nsym_before=1, nsym_after=0), label='verbatim sym+prefix %d' % k, no_twin=True))
        J.append(dict(harness='h_verbatim', params=dict(pre=END[:k], nsym_before=0, nsym_after=1), label='verbatim prefix+sym %d' % k, no_twin=True))
        if not q:
            J.append(dict(harness='h_verbatim', params=dict(pre=END[:k], nsym_before=1, nsym_after=1), label='verbatim sym+prefix+sym %d' % k, no_twin=True))
    J.append(dict(harness='h_verbatim', params=dict(pre='a%b\n\n  c``--', nsym_before=1, nsym_after=1), label='verbatim comment/ligature body', no_twin=True))
    J.append(dict(harness='h_verbatim', params=dict(pre='\\en', nsym_before=0, nsym_after=1, star=True), label='verbatim* prefix+sym', no_twin=True))
    # the command form of the end marker (\endverbatim) and other near-markers are content inside \begin{verbatim}
    for near in ('\\endverbatim ', '\\endverbatim', '\\end{verbatim*}', '\\end {verbatim}', '\\END{verbatim}', '\\end{verbatim }'):
        J.append(dict(harness='h_verbatim', params=dict(pre=near, nsym_before=1, nsym_after=1), label='verbatim near-marker %r' % near, no_twin=True))
    J.append(dict(harness='h_verbatim', params=dict(pre='\\endverbatim* x', nsym_before=0, nsym_after=1, star=True), label='verbatim* command-form marker', no_twin=True))
    for star in (False, True):
        J.append(dict(harness='h_verb', params=dict(nbody=2 if q else 3, star=star), label='verb star=%s' % star, no_twin=star))
        for nb in (0, 1):
            J.append(dict(harness='h_verb', params=dict(nbody=nb, star=star), label='verb star=%s body of %d characters' % (star, nb), no_twin=True))
        J.append(dict(harness='h_verb', params=dict(nbody=2 if q else 3, star=star, indoc=True), label='verb star=%s in a document' % star, no_twin=True))
    for L in (2, 3):
        J.append(dict(harness='h_verbatim', params=dict(pre='', nsym_before=L, nsym_after=0, indoc=True), label='verbatim free L=%d in a document' % L, no_twin=True))
    chunk = 8
    for env in range(5):
        for lo in range(0, len(FORMULAS), chunk):
            if q and env > 0 and ((lo // chunk) + env + seed) % 2:
                continue
            J.append(dict(harness='h_math', params=dict(lo=lo, hi=min(len(FORMULAS), lo + chunk), env=env), label='math env%d [%d:]' % (env, lo), no_twin=(env, lo) != (0, 0)))
    return J
