"""C17  A document's result does not depend on what was processed before it.

(a) balance obligations (symbolic): every return path of TeX.readArgumentAndSource and of the read* scanners, for ALL argument
    type strings the dispatcher knows, on token streams of <= 2 symbolic characters (end of input at every position) and on
    streams that start with a register of each kind: ParameterCommand._enablelevel / enabled after the call == before.
(b) monitors on whole documents: after a document made of risky constructs has been processed, the snapshot of interpreter-wide
    state (parameter-enable level, math nesting tracker, list depth, disableMath flags, register values on classes, class
    attributes patched by document classes, column types) equals its initial value.
(c) differential: B processed after A equals B processed first (canonicalised XML) for the same construct set (concrete)."""
import re
from sxv import api
from sxv.api import Src, eq
from sxv.props import common

import plasTeX
from plasTeX import TeXDocument
from plasTeX.TeX import TeX
from plasTeX.Base.TeX import Primitives
from plasTeX.Base.LaTeX import Lists, Math, Arrays

PROP = 'C17'
LEVEL = 'model_checking'
FUNCTIONS = ['plasTeX.TeX:TeX.readArgumentAndSource', 'plasTeX.TeX:TeX.readInteger', 'plasTeX.TeX:TeX.readDimen', 'plasTeX.TeX:TeX.readMuDimen', 'plasTeX.TeX:TeX.readGlue',
             'plasTeX.TeX:TeX.readMuGlue', 'plasTeX.TeX:TeX.readUnitOfMeasure', 'plasTeX.TeX:TeX.readDecimal', 'plasTeX:ParameterCommand.invoke', 'plasTeX:ParameterCommand.enable',
             'plasTeX:ParameterCommand.disable', 'plasTeX.Base.TeX.Primitives:MathShift.invoke', 'plasTeX.Base.TeX.Primitives:BoxCommand.parse',
             'plasTeX.Base.LaTeX.Lists:List.invoke', 'plasTeX.Packages.ifthen:ifthenelse.invoke', 'plasTeX:DimenCommand.setlength', 'plasTeX.Packages.article:ProcessOptions',
             'plasTeX.Base.LaTeX.Arrays:ColumnType.new']
RULE = ('one evaluation = one path: (a) one argument type x delimiter spec x one class of the token stream; (b)/(c) one document (pair) of the construct set; '
        'non-trivial = the call consumed at least one token / the document contains a risky construct')
BOUNDS = {
    'quick': '(a) all 40 type strings x spec in {none, *, []} x streams of 0-2 symbolic characters over {1, a, blank, {, }, [, ], -, p, t} and 10 streams starting with a count/dimen/'
             'glue/muglue register; (b) 30 documents (boxes, nested lists to depth 6, ifthen tests, register-to-register assignments, open math/list at end of input, '
             'article/book, \\newcolumntype); (c) all pairs A;B over 12 of them',
    'thorough': '(a) streams of 0-3 symbolic characters; (b),(c) all pairs over the 30 documents',
}
ASSUMPTIONS = ['(c) compares canonicalised toXML() of B (generated identifiers a<number> replaced); it is a concrete differential check, the solver-based part is (a)',
               'a call of readArgumentAndSource that raises is not a completed processing step: nothing is claimed after an exception']
OUTSIDE = ['rendered files of A;B vs B', 'packages beyond those named in the document set']
BUDGET_S = {'quick': 900, 'thorough': 3300}

TYPES = ['Dimen', 'Length', 'Dimension', 'MuDimen', 'MuLength', 'Glue', 'Skip', 'MuGlue', 'MuSkip', 'Number', 'Int', 'Integer', 'Token', 'Tok', 'XTok', 'XToken', 'Args', 'any', 'cs',
         'url', 'str', 'chr', 'char', 'label', 'id', 'idref', 'ref', 'nox', 'list', 'dict', 'dimen', 'dimension', 'length', 'number', 'count', 'int', 'float', 'double', None, 'nosuchtype']
MAC_STREAMS = ['\\mempty x', '\\mtwo x', '{\\mtwo}x', '{\\mempty}x', '\\mone x', '\\mtwo', '\\mnest x']      # user macros with empty / one-token / longer replacement texts
REG_STREAMS = ['\\tolerance ', '-\\tolerance x', '\\parindent ', '2\\parindent ', '\\parskip ', '\\parskip plus 1pt', '\\medmuskip ', '-\\medmuskip ', '\\thickmuskip=\\medmuskip ', '1pt plus\\parindent ']


def _param_classes():
    out = []
    seen = set()
    stack = [plasTeX.ParameterCommand]
    while stack:
        c = stack.pop()
        for s in c.__subclasses__():
            if s not in seen:
                seen.add(s)
                stack.append(s)
                if s.__module__.startswith('plasTeX.Base') or s.__module__.startswith('plasTeX.Packages'):
                    out.append(s)
    return sorted(out, key=lambda c: (c.__module__, c.__name__))


def snapshot():
    """interpreter-wide (class-level / module-level) parser state"""
    from plasTeX.Base.LaTeX import Index, Bibliography
    s = {
        'ParameterCommand.enabled': plasTeX.ParameterCommand.enabled,
        'ParameterCommand._enablelevel': plasTeX.ParameterCommand._enablelevel,
        'MathShift.inEnv': len(Primitives.MathShift.inEnv),
        'List.depth': Lists.List.depth,
        'BeginMath.disableMath': Math.BeginMath.disableMath,
        'EndMath.disableMath': Math.EndMath.disableMath,
        'columnTypes': tuple(sorted(Arrays.ColumnType.columnTypes.keys())),
        'theindex.counter': Index.theindex.counter, 'theindex.level': Index.theindex.level,
        'printindex.counter': Index.printindex.counter, 'printindex.level': Index.printindex.level,
        'bibliography.counter': getattr(Bibliography.bibliography, 'counter', None), 'bibliography.level': Bibliography.bibliography.level,
    }
    for c in _param_classes():
        v = c.__dict__.get('value', None)
        if v is not None:
            s['%s.%s.value' % (c.__module__.split('.')[-1], c.__name__)] = repr(v)
    return s


_INITIAL = None


def restore_state():
    """put interpreter-wide state back (so that one leaking path cannot contaminate the next one)"""
    common.reset_parser_state()
    from plasTeX.Base.LaTeX import Index, Bibliography
    global _INITIAL
    if _INITIAL is None:
        _INITIAL = {'values': {c: c.__dict__['value'] for c in _param_classes() if 'value' in c.__dict__},
                    'cols': dict(Arrays.ColumnType.columnTypes),
                    'idx': [(Index.theindex, 'counter', Index.theindex.counter), (Index.theindex, 'level', Index.theindex.level),
                            (Index.printindex, 'counter', Index.printindex.counter), (Index.printindex, 'level', Index.printindex.level),
                            (Bibliography.bibliography, 'counter', getattr(Bibliography.bibliography, 'counter', None)),
                            (Bibliography.bibliography, 'level', Bibliography.bibliography.level)]}
        return
    for c, v in _INITIAL['values'].items():
        c.value = v
    Arrays.ColumnType.columnTypes.clear()
    Arrays.ColumnType.columnTypes.update(_INITIAL['cols'])
    for cls, attr, v in _INITIAL['idx']:
        setattr(cls, attr, v)


def reset():
    restore_state()


# ------------------------------------------------------------------------------------------- (a) balance
ALPHA = '1a {}[]-pt'


def h_balance(e, typ, spec, L, stream=None):
    doc = TeXDocument()
    doc.context.newdef('mempty', '', '')
    doc.context.newdef('mone', '', 'a')
    doc.context.newdef('mtwo', '', 'ab')
    doc.context.newdef('mnest', '', '\\mtwo\\mempty 1pt')
    if stream is None:
        cs = []
        for i in range(L):
            c = e.char('c%d' % i, 32, 125)
            e.assume(e.one_of(c, ALPHA))
            cs.append(c)
        chars = cs
    else:
        chars = list(stream)
    tex = TeX(doc)
    tex.input(Src(chars))
    before = (plasTeX.ParameterCommand._enablelevel, plasTeX.ParameterCommand.enabled)
    node = doc.createElement('dummy')
    try:
        tex.readArgumentAndSource(spec=spec, type=typ, parentNode=node, name='x')
    except Exception:
        e.tag('raised')
        return
    after = (plasTeX.ParameterCommand._enablelevel, plasTeX.ParameterCommand.enabled)
    e.observe([after[0], bool(after[1])])
    e.check(after == before, 'readArgumentAndSource(type=%r, spec=%r) leaves the parameter-enable level at %s (was %s): register assignments in every later document are %s'
            % (typ, spec, after[0], before[0], 'ignored' if after[0] < 0 else 'affected'), 'enable-level:type=%s' % typ)
    if len(chars) >= 1:
        e.nontriv()


# ------------------------------------------------------------------------------------------- (b) documents
def _wrap(body, cls='article', pre=''):
    return '\\documentclass{%s}%s\\begin{document}%s\\end{document}' % (cls, pre, body)


def _nested(depth):
    return ''.join('\\begin{enumerate}\\item i%d ' % d for d in range(depth)) + ''.join('\\end{enumerate}' for d in range(depth))


DOCS = [
    ('plain', _wrap('\\section{A} text')),
    ('empty-mbox', _wrap('a \\mbox{} b \\hbox{} \\textbf{} c')),
    ('mbox-in-math', _wrap('$\\mbox{}^{14}$C and $x\\mbox{y $z$ w}$')),
    ('math', _wrap('$a$ $$b$$ \\(c\\) \\[d\\]')),
    ('lists-2', _wrap(_nested(2))),
    ('lists-4', _wrap(_nested(4))),
    ('lists-5', _wrap(_nested(5))),
    ('lists-6', _wrap(_nested(6))),
    ('itemize-desc', _wrap('\\begin{itemize}\\item a\\begin{description}\\item[t] d\\end{description}\\end{itemize}')),
    ('ifthen-single', _wrap('\\ifthenelse{\\isodd{3}}{T}{E}', pre='\\usepackage{ifthen}')),
    ('ifthen-equal', _wrap('\\ifthenelse{\\equal{a}{a}}{T}{E} \\(x\\)', pre='\\usepackage{ifthen}')),
    ('ifthen-compound', _wrap('\\ifthenelse{1<2 \\and \\( 2<3 \\or 1>2 \\)}{T}{E}', pre='\\usepackage{ifthen}')),
    ('ifthen-while', _wrap('\\newcounter{i}\\whiledo{\\value{i}<2}{x\\stepcounter{i}}', pre='\\usepackage{ifthen}')),
    ('muskip-from-register', _wrap('\\thickmuskip=\\medmuskip $a=b$')),
    ('skip-from-register', _wrap('\\newskip\\mysk \\mysk=\\parskip x')),
    ('dimen-from-register', _wrap('\\newdimen\\mydim \\mydim=\\parindent \\mydim=2\\mydim x')),
    ('count-from-register', _wrap('\\newcount\\mycnt \\mycnt=\\tolerance \\mycnt=-\\mycnt x')),
    ('user-register-literal', _wrap('\\newdimen\\myd \\myd=7pt \\newcount\\myc \\myc=3 x')),
    ('setlength-user', _wrap('\\newlength{\\myl}\\setlength{\\myl}{3pt}\\addtolength{\\myl}{1pt}x')),
    ('openout', _wrap('x')),
    ('tabular', _wrap('\\begin{tabular}{|l|r|}a&b\\\\\\hline c&d\\end{tabular}')),
    ('book', _wrap('\\chapter{C}\\section{S} x', cls='book')),
    ('report', _wrap('\\chapter{C} x', cls='report')),
    ('footnote-verb', _wrap('a\\footnote{f} \\verb|x| \\begin{verbatim}\nv\n\\end{verbatim} z')),
    # constructs left open at end of input (the property's quantifier names them explicitly)
    ('open-math', '\\documentclass{article}\\begin{document}a $x + y'),
    ('open-displaymath', '\\documentclass{article}\\begin{document}a $$x'),
    ('open-list', '\\documentclass{article}\\begin{document}\\begin{itemize}\\item a\\begin{enumerate}\\item b'),
    ('open-mbox-math', '\\documentclass{article}\\begin{document}\\hbox{a $x}'),
    # built-in registers and class patching
    ('builtin-register', _wrap('\\parindent=5pt \\tolerance=3 x')),
    ('newcolumntype', _wrap('\\newcolumntype{Y}{c}\\begin{tabular}{Y}a\\end{tabular}', pre='\\usepackage{array}')),
]
DOCNAMES = [d[0] for d in DOCS]


def _process(src):
    doc = TeXDocument()
    tex = TeX(doc)
    tex.input(src)
    out = tex.parse()
    return out


def _canon(node):
    x = node.toXML()
    x = re.sub(r'\ba\d{6,}\b', 'aID', x)
    x = re.sub(r'0x[0-9a-f]+', '0xADDR', x)
    return x


def h_monitor(e, lo, hi):
    k = lo + e.choice(hi - lo, 'document')
    name, src = DOCS[k]
    restore_state()
    before = snapshot()
    try:
        _process(src)
    except Exception as ex:
        e.tag('raised')
        return
    after = snapshot()
    diff = sorted(kk for kk in before if before[kk] != after.get(kk))
    diff += sorted(kk for kk in after if kk not in before)
    for d in diff:
        e.check(False, 'after document %r interpreter-wide state %s is %r (initially %r)' % (name, d, after.get(d), before.get(d)), 'leak:%s:%s' % (_family(d), name))
    e.nontriv()


def _family(key):
    if key.endswith('.value'):
        return 'register-value'
    return key


def h_pair(e, na, nb):
    A = e.choice(na, 'A')
    B = e.choice(nb, 'B')
    srcB = DOCS[B][1]
    restore_state()
    try:
        alone = _canon(_process(srcB))
    except Exception:
        e.tag('raised')
        return
    restore_state()
    try:
        _process(DOCS[A][1])
    except Exception:
        e.tag('raised')
        return
    try:
        after = _canon(_process(srcB))
    except Exception as ex:
        e.check(False, 'document %r raises %s after %r was processed, but not alone' % (DOCS[B][0], type(ex).__name__, DOCS[A][0]), 'pair-raises:%s' % DOCS[A][0])
        return
    e.check(after == alone, 'document %r gives a different tree after %r was processed than when processed first' % (DOCS[B][0], DOCS[A][0]),
            'pair-differs:%s' % DOCS[A][0])
    e.nontriv()


def jobs(tier, seed):
    J = []
    q = tier == 'quick'
    specs = [None, '*', '[]']
    for typ in TYPES:
        for spec in specs:
            for L in ((0, 1, 2) if q else (0, 1, 2, 3)):
                if L == 3 and spec == '*':
                    continue
                J.append(dict(harness='h_balance', params=dict(typ=typ, spec=spec, L=L), label='balance %s %s L=%d' % (typ, spec, L), no_twin=True, may_be_vacuous=True))
        for st in REG_STREAMS + MAC_STREAMS:
            J.append(dict(harness='h_balance', params=dict(typ=typ, spec=None, L=0, stream=st), label='balance %s reg %r' % (typ, st), no_twin=True, may_be_vacuous=True))
    for lo in range(0, len(DOCS), 6):
        J.append(dict(harness='h_monitor', params=dict(lo=lo, hi=min(len(DOCS), lo + 6)), label='monitor docs[%d:%d]' % (lo, min(len(DOCS), lo + 6))))
    nb = 12 if q else len(DOCS)
    J.append(dict(harness='h_pair', params=dict(na=len(DOCS), nb=nb), label='pairs A;B', no_twin=True))
    return J
