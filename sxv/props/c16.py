"""C16  Configuration values come from defaults, files and command line in that order.

Real code: ConfigOption.setFromString/updateFromDict/registerArgparse, BooleanOption, MultiStringOption, DictOption and its
subclasses, ConfigSection.__getitem__ + InterpolationWrapper, ConfigManager.read/registerArgparse/updateFromDict, defaultConfig,
HTML5.Config.addConfig, in client.main's order (read files, then command line).
Symbolic: the characters of values written in configuration files (digits of integers/floats, letters of strings and list
items), presence of each layer (file 1, file 2, command line) as z3 booleans.  The INI reader (stdlib ConfigParser) is an
environment stub serving (section, key, value) triples in symbolic runs and the real ConfigParser on real files in concrete
replay/cross-validation; argparse always runs for real on a concrete argv."""
import os
import tempfile
from argparse import ArgumentParser
from sxv import api
from sxv.api import eq, ord_
from sxv.props import common

import plasTeX.ConfigManager as CM
from plasTeX.Config import defaultConfig
from plasTeX.Renderers.HTML5 import Config as H5

PROP = 'C16'
LEVEL = 'model_checking'
FUNCTIONS = ['plasTeX.ConfigManager:ConfigOption.setFromString', 'plasTeX.ConfigManager:ConfigOption.updateFromDict', 'plasTeX.ConfigManager:ConfigOption.registerArgparse',
             'plasTeX.ConfigManager:BooleanOption.registerArgparse', 'plasTeX.ConfigManager:MultiStringOption.setFromString', 'plasTeX.ConfigManager:MultiStringOption.updateFromDict',
             'plasTeX.ConfigManager:DictOption.set', 'plasTeX.ConfigManager:DictOption.setFromString', 'plasTeX.ConfigManager:DictOption.updateFromDict',
             'plasTeX.ConfigManager:ConfigSection.__getitem__', 'plasTeX.ConfigManager:InterpolationWrapper.__getitem__', 'plasTeX.ConfigManager:ConfigManager.read',
             'plasTeX.ConfigManager:ConfigManager.updateFromDict', 'plasTeX.ConfigManager:ConfigManager.registerArgparse', 'plasTeX.Config:defaultConfig',
             'plasTeX.Renderers.HTML5.Config:addConfig']
RULE = ('one evaluation = one path = one option x one layering (which of file 1 / file 2 / command line give it) x one class of written values; '
        'non-trivial = at least two layers present')
BOUNDS = {
    'quick': 'one representative option per type and section (5 integer, 1 float, 4 string, all 16 boolean, 4 list, 3 dictionary options) x layers {default, file 1, file 2, command line} '
             'each present or absent (symbolic) x integer/float values of 1-2 symbolic digits, strings of 0-2 symbolic letters (the empty value included), list items of 2 symbolic letters, 10 boolean spellings, paired flags; '
             'interpolation of %(name)s / %% in string and list options with the referenced option overridden, and of options whose current value is 0 or empty',
    'thorough': 'every integer/string/list option of every section, 3 files',
}
ASSUMPTIONS = ['configparser.ConfigParser is replaced by a stub serving (section, key, value) triples in symbolic runs (keys lower-cased, values stripped, later reads merged into the same '
               'parser object as the real class does); concrete replay and cross-validation use the real ConfigParser on real temporary files',
               'shlex.split modelled for text without quotes/escapes/comments', 'argparse runs for real on concrete argument vectors']
OUTSIDE = ['option values containing quotes, escapes, comment characters or newlines', 'the plastex command line entry point itself (client.main) beyond its order read-files-then-command-line']
BUDGET_S = {'quick': 900, 'thorough': 3300}

TRUE_SP = ['yes', 'true', 'on', '1', 'Yes', 'TRUE']
FALSE_SP = ['no', 'false', 'off', '0', 'No', 'OFF']


class StubParser:
    """stands for configparser.ConfigParser(interpolation=None) in symbolic runs"""
    FILES = {}
    BOOLEAN_STATES = __import__('configparser').ConfigParser.BOOLEAN_STATES

    def __init__(self, interpolation=None, **kw):
        self.d = {}

    def read(self, filenames, encoding=None):
        if isinstance(filenames, str):
            filenames = [filenames]
        ok = []
        for fn in filenames:
            data = StubParser.FILES.get(fn)
            if data is None:
                continue
            ok.append(fn)
            for sec, items in data.items():
                s = self.d.setdefault(sec, {})
                for k, v in items:
                    s[k.lower()] = v.strip() if isinstance(v, str) else v
        return ok

    def sections(self):
        return list(self.d)

    def items(self, section):
        return list(self.d[section].items())


_REAL_PARSER = CM.ConfigParser


def reset():
    CM.ConfigParser = _REAL_PARSER
    StubParser.FILES = {}


def _config():
    c = defaultConfig()
    H5.addConfig(c)
    return c


def _load(e, cfg, files, argv):
    """client.main's order: read the files, then the command line"""
    parser = ArgumentParser('plasTeX')
    cfg.registerArgparse(parser)
    data = vars(parser.parse_args(argv))
    names = []
    if e.symbolic:
        CM.ConfigParser = StubParser
        StubParser.FILES = {}
        for i, f in enumerate(files):
            nm = '/nonexistent/f%d.ini' % i
            names.append(nm)
            if f is not None:
                StubParser.FILES[nm] = f
        try:
            cfg.read(names)
        finally:
            CM.ConfigParser = _REAL_PARSER
    else:
        d = tempfile.mkdtemp(prefix='sxv-c16-', dir='/var/tmp')
        try:
            for i, f in enumerate(files):
                nm = os.path.join(d, 'f%d.ini' % i)
                names.append(nm)
                if f is not None:
                    with open(nm, 'w') as fh:
                        for sec, items in f.items():
                            fh.write('[%s]\n' % sec)
                            for k, v in items:
                                fh.write('%s = %s\n' % (k, v))
            cfg.read(names)
        finally:
            for nm in names:
                if os.path.exists(nm):
                    os.unlink(nm)
            os.rmdir(d)
    cfg.updateFromDict(data)


def _digits(e, name, n):
    ds = [e.char('%s_%d' % (name, i), 48, 57) for i in range(n)]
    val = 0
    for d in ds:
        val = val * 10 + (ord_(d) - 48)
    return api.cat(ds), val


def _letters(e, name, n, alphabet='ab'):
    cs = []
    for i in range(n):
        c = e.char('%s_%d' % (name, i), 97, 122)
        e.assume(e.one_of(c, alphabet))
        cs.append(c)
    return api.cat(cs)


INT_OPTS = [('document', 'sec-num-depth', '--sec-num-depth'), ('files', 'split-level', '--split-level'), ('document', 'toc-depth', '--toc-depth'),
            ('images', 'resolution', '--image-resolution'), ('html5', 'breadcrumbs-level', '--breadcrumbs-level'), ('document', 'index-columns', '--index-columns'),
            ('images', 'baseline-padding', '--image-baseline-padding'), ('html5', 'localtoc-level', '--localtoc-level')]
STR_OPTS = [('general', 'theme', '--theme'), ('files', 'output-encoding', '--output-encoding'), ('images', 'compiler', '--image-compiler'), ('html5', 'theme-css', '--theme-css'),
            ('general', 'renderer', '--renderer'), ('document', 'title', '--title'), ('images', 'base-url', '--image-base-url'), ('files', 'bad-chars-sub', '--bad-filename-chars-sub')]
LIST_OPTS = [('general', 'plugins', '--plugins'), ('document', 'disable-charsub', '--disable-charsub'), ('html5', 'extra-css', '--extra-css'), ('general', 'packages-dirs', '--packages-dirs'),
             ('general', 'tex-packages', '--tex-packages'), ('document', 'lang-terms', '--lang-terms'), ('html5', 'extra-js', '--extra-js')]


def _bool_opts():
    out = []
    c = _config()
    for sn, sec in c.items():
        for k, o in sec.data.items():
            if isinstance(o, CM.BooleanOption):
                en = [x for x in o.options if x[0] != '!']
                dis = [x[1:] for x in o.options if x[0] == '!']
                sect = [n for n, s in c.items() if s is sec][0]
                out.append((sect, k, en[0], dis[0] if dis else None, o.value))
    return out


def _layers(e):
    return e.bool('file1'), e.bool('file2'), e.bool('cli')


def h_int(e, idx):
    sec, key, flag = INT_OPTS[idx]
    cfg = _config()
    default = cfg[sec][key]
    f1, f2, cl = _layers(e)
    s1, v1 = _digits(e, 'a', 2)
    s2, v2 = _digits(e, 'b', 1)
    files = [{sec: [(key, s1)]} if f1 else None, {sec: [(key.upper() if idx % 2 else key, s2)]} if f2 else None]
    argv = [flag, '17'] if cl else []
    try:
        _load(e, cfg, files, argv)
        got = cfg[sec][key]
    except (ValueError, TypeError, KeyError, AttributeError) as ex:
        e.fail_exception(ex)
        return
    want = 17 if cl else (v2 if f2 else (v1 if f1 else default))
    e.observe(got)
    e.check(got == want, '%s.%s: value %r is not the one from the highest layer present (file1=%s file2=%s cli=%s)' % (sec, key, got, bool(f1), bool(f2), bool(cl)), 'layering:int')
    e.check(api.isinst(got, int), 'integer option read back as %s' % api.typeof(got).__name__, 'type:int')
    if (1 if f1 else 0) + (1 if f2 else 0) + (1 if cl else 0) >= 2:
        e.nontriv()


def h_float(e):
    sec, key, flag = 'images', 'scale-factor', '--image-scale-factor'
    cfg = _config()
    f1, f2, cl = _layers(e)
    d = [e.char('d%d' % i, 48, 57) for i in range(3)]
    s1 = api.cat([d[0], '.', d[1]])
    s2 = api.cat([d[2]])
    files = [{sec: [(key, s1)]} if f1 else None, {sec: [(key, s2)]} if f2 else None]
    argv = [flag, '2.5'] if cl else []
    try:
        _load(e, cfg, files, argv)
        got = cfg[sec][key]
    except (ValueError, TypeError, KeyError, AttributeError) as ex:
        e.fail_exception(ex)
        return
    if cl:
        e.check(got == 2.5, 'command line float', 'layering:float')
    elif f2:
        e.check(got == (ord_(d[2]) - 48), 'float from the later file', 'layering:float')
    elif f1:
        e.check(got * 10 == (ord_(d[0]) - 48) * 10 + (ord_(d[1]) - 48), 'float from file', 'layering:float')
    else:
        e.check(got == 1.0, 'float default', 'layering:float')
    e.nontriv()


def h_str(e, idx):
    sec, key, flag = STR_OPTS[idx]
    cfg = _config()
    default = cfg[sec][key]
    f1, f2, cl = _layers(e)
    # values of 0-2 characters: an empty value in a later layer replaces an earlier non-empty one
    s1 = _letters(e, 'a', e.choice(3, 'len1')) if f1 else ''
    s2 = _letters(e, 'b', e.choice(3, 'len2')) if f2 else ''
    files = [{sec: [(key, s1)]} if f1 else None, {sec: [(key, s2)]} if f2 else None]
    argv = [flag, 'zz'] if cl else []
    try:
        _load(e, cfg, files, argv)
        got = cfg[sec][key]
    except (ValueError, TypeError, KeyError, AttributeError) as ex:
        e.fail_exception(ex)
        return
    want = 'zz' if cl else (s2 if f2 else (s1 if f1 else default))
    e.observe(got)
    e.check(eq(got, want), '%s.%s: string not from the highest layer present' % (sec, key), 'layering:str')
    if (1 if f1 else 0) + (1 if f2 else 0) + (1 if cl else 0) >= 2:
        e.nontriv()


def h_bool(e, idx):
    sec, key, en, dis, default = BOOLS[idx]
    cfg = _config()
    f1, f2 = e.bool('file1'), e.bool('file2')
    sp = TRUE_SP + FALSE_SP
    w1 = sp[e.choice(len(sp), 'spelling1')] if f1 else None
    w2 = sp[e.choice(len(sp), 'spelling2')] if f2 else None
    cli = e.choice(3 if dis else 2, 'cli')          # 0 absent, 1 enabling flag, 2 disabling flag
    files = [{sec: [(key, w1)]} if f1 else None, {sec: [(key, w2)]} if f2 else None]
    argv = [en] if cli == 1 else ([dis] if cli == 2 else [])
    try:
        _load(e, cfg, files, argv)
        got = cfg[sec][key]
    except (ValueError, TypeError, KeyError, AttributeError) as ex:
        e.fail_exception(ex)
        return
    if cli == 1:
        want = True
    elif cli == 2:
        want = False
    elif f2:
        want = w2 in TRUE_SP
    elif f1:
        want = w1 in TRUE_SP
    else:
        want = default
    e.observe(bool(got))
    e.check(got is want or got == want and isinstance(got, bool), '%s.%s: boolean %r, expected %r (file1=%r file2=%r cli=%s)' % (sec, key, got, want, w1, w2, argv), 'layering:bool')
    e.nontriv()


def h_list(e, idx):
    sec, key, flag = LIST_OPTS[idx]
    cfg = _config()
    f1, f2, cl = _layers(e)
    a, b, c = _letters(e, 'a', 2), _letters(e, 'b', 2), _letters(e, 'c', 1)
    files = [{sec: [(key, api.cat([a, ' ', b]))]} if f1 else None, {sec: [(key, c)]} if f2 else None]
    argv = [flag, 'x', 'y'] if cl else []
    try:
        _load(e, cfg, files, argv)
        got = cfg[sec][key]
    except (ValueError, TypeError, KeyError, AttributeError) as ex:
        e.fail_exception(ex)
        return
    want = ([a, b] if f1 else []) + ([c] if f2 else []) + (['x', 'y'] if cl else [])
    e.observe([g for g in got])
    e.check(len(got) == len(want), '%s.%s: list has %d entries, the layers present give %d (lists extend, in layer order)' % (sec, key, len(got), len(want)), 'layering:list')
    if len(got) == len(want):
        e.check(api.all_([eq(g, w) for g, w in zip(got, want)]), '%s.%s: list entries/order' % (sec, key), 'layering:list')
    if (1 if f1 else 0) + (1 if f2 else 0) + (1 if cl else 0) >= 2:
        e.nontriv()


def h_dict(e, which):
    cfg = _config()
    f1, f2, cl = _layers(e)
    if which == 'counters':
        sec, key, flag = 'counters', 'counters', '--counter'
        s1, v1 = _digits(e, 'a', 1)
        s2, v2 = _digits(e, 'b', 2)
        files = [{sec: [('chapter', s1), ('section', '3')]} if f1 else None, {sec: [('chapter', s2)]} if f2 else None]
        same = e.bool('cli_same_key')
        argv = [flag, 'chapter' if same else 'figure', '9'] if cl else []
        want = {}
        if f1:
            want['chapter'], want['section'] = v1, 3
        if f2:
            want['chapter'] = v2
        if cl:
            want['chapter' if same else 'figure'] = 9
    elif which == 'logging':
        sec, key, flag = 'logging', 'logging', '--logging'
        files = [{sec: [('parse', 'DEBUG'), ('render', 'INFO')]} if f1 else None, {sec: [('parse', 'ERROR')]} if f2 else None]
        same = e.bool('cli_same_key')
        argv = [flag, 'parse' if same else 'status', 'WARNING'] if cl else []
        want = {}
        if f1:
            want['parse'], want['render'] = 'DEBUG', 'INFO'
        if f2:
            want['parse'] = 'ERROR'
        if cl:
            want['parse' if same else 'status'] = 'WARNING'
    else:
        sec, key, flag = 'images', 'scales', '--scales'
        s1, v1 = _digits(e, 'a', 1)
        files = [{sec: [('scales', api.cat(['math=', s1, ',foo=2']))]} if f1 else None, {sec: [('scales', 'math=4')]} if f2 else None]
        same = e.bool('cli_same_key')
        argv = [flag, 'math' if same else 'bar', '1.5'] if cl else []
        want = {}
        if f1:
            want['math'], want['foo'] = v1, 2
        if f2:
            want['math'] = 4
        if cl:
            want['math' if same else 'bar'] = 1.5
    try:
        _load(e, cfg, files, argv)
        got = cfg[sec][key]
    except (ValueError, TypeError, KeyError, AttributeError) as ex:
        e.fail_exception(ex)
        return
    e.check(sorted(got.keys()) == sorted(want.keys()), '%s: keys %s, the layers present give %s' % (sec, sorted(got.keys()), sorted(want.keys())), 'layering:dict')
    if sorted(got.keys()) != sorted(want.keys()):
        return
    for k, v in want.items():
        e.check(got[k] == v, '%s[%s]: %r is not the value from the highest layer that sets it' % (sec, k, got[k]), 'layering:dict')
    if (1 if f1 else 0) + (1 if f2 else 0) + (1 if cl else 0) >= 2:
        e.nontriv()


def h_interp(e):
    """%(name)s refers to the *current* value of the named option, %% is a literal percent sign - in strings and in list entries"""
    cfg = _config()
    f2, cl = e.bool('file2'), e.bool('cli')
    th = _letters(e, 't', 2)
    x = _letters(e, 'x', 1)
    files = [{'document': [('title', api.cat([x, '%(theme)s-100%%'])), ('lang-terms', api.cat(['%(theme)s.xml 50%%.xml ', x, '%%%(theme)s']))],
              'general': [('theme', 'first')]},
             {'general': [('theme', th)]} if f2 else None]
    argv = ['--theme', 'cli'] if cl else []
    try:
        _load(e, cfg, files, argv)
        title = cfg['document']['title']
        terms = cfg['document']['lang-terms']
    except (ValueError, TypeError, KeyError, AttributeError) as ex:
        e.fail_exception(ex)
        return
    theme = 'cli' if cl else (th if f2 else 'first')
    e.check(eq(title, api.cat([x, theme, '-100%'])), 'string interpolation: %(theme)s must be the current theme and %% a percent sign', 'interpolation:str')
    e.check(len(terms) == 3, 'list option has %d entries' % len(terms), 'interpolation:list')
    if len(terms) == 3:
        e.check(eq(terms[0], api.cat([theme, '.xml'])), 'list entry with %(name)s', 'interpolation:list')
        e.check(eq(terms[1], '50%.xml'), 'list entry with %% only: got %r' % (terms[1],), 'interpolation:list')
        e.check(eq(terms[2], api.cat([x, '%', theme])), 'list entry with %% next to %(name)s', 'interpolation:list')
    e.nontriv()


def h_interp_falsy(e):
    """%(name)s refers to the current value of the named option also when that value is 0 or empty"""
    cfg = _config()
    d = ['0', '7', '10'][e.choice(3, 'split-level')]
    f2 = e.bool('file2')
    files = [{'files': [('split-level', d)], 'document': [('toc-depth', '0')],
              'general': [('theme', api.cat(['s%(split-level)s-t%(toc-depth)s-r%(resolution)s-u%(base-url)sz']))]},
             {'document': [('base-url', '')]} if f2 else None]
    try:
        _load(e, cfg, files, [])
        theme = cfg['general']['theme']
    except (ValueError, TypeError, KeyError, AttributeError) as ex:
        e.fail_exception(ex)
        return
    e.observe(theme)
    e.check(eq(theme, api.cat(['s', d, '-t0-r0-uz'])), 'interpolation of options whose value is 0 / empty', 'interpolation:falsy')
    e.nontriv()


def h_interp_plain(e):
    """%% is a literal percent sign also in a value that contains no %(name)s reference; a quoted entry of a list option in a file is one entry"""
    cfg = _config()
    x = _letters(e, 'x', 1)
    cl = e.bool('cli')
    files = [{'document': [('title', api.cat(['100%% ', x]))], 'html5': [('extra-css', '"my styles/p v.css" plain.css')], 'files': [('bad-chars-sub', '%%')]}]
    argv = ['--title', '50%% off'] if cl else []
    try:
        _load(e, cfg, files, argv)
        title = cfg['document']['title']
        css = cfg['html5']['extra-css']
        sub = cfg['files']['bad-chars-sub']
    except (ValueError, TypeError, KeyError, AttributeError) as ex:
        e.fail_exception(ex)
        return
    e.observe([title, list(css), sub])
    e.check(eq(title, '50% off' if cl else api.cat(['100% ', x])), 'a %% in a value without references must read back as one percent sign', 'interpolation:plain')
    e.check(eq(sub, '%'), 'a value that is just %% reads back as %', 'interpolation:plain')
    e.check(len(css) >= 2 and list(css)[-2:] == ['my styles/p v.css', 'plain.css'], 'a quoted list entry in a file is one entry: %r' % (list(css),), 'list:quoted')
    e.nontriv()


BOOLS = _bool_opts()


def jobs(tier, seed):
    J = []
    q = tier == 'quick'
    for i in range(5 if q else len(INT_OPTS)):
        J.append(dict(harness='h_int', params=dict(idx=i), label='int %s.%s' % INT_OPTS[i][:2]))
    J.append(dict(harness='h_float', params={}, label='float images.scale-factor'))
    for i in range(4 if q else len(STR_OPTS)):
        J.append(dict(harness='h_str', params=dict(idx=i), label='str %s.%s' % STR_OPTS[i][:2]))
    for i in range(len(BOOLS)):
        J.append(dict(harness='h_bool', params=dict(idx=i), label='bool %s.%s' % BOOLS[i][:2], no_twin=i > 2))
    for i in range(4 if q else len(LIST_OPTS)):
        J.append(dict(harness='h_list', params=dict(idx=i), label='list %s.%s' % LIST_OPTS[i][:2]))
    for w in ('counters', 'logging', 'scales'):
        J.append(dict(harness='h_dict', params=dict(which=w), label='dict %s' % w))
    J.append(dict(harness='h_interp', params={}, label='interpolation'))
    J.append(dict(harness='h_interp_falsy', params={}, label='interpolation of falsy values'))
    J.append(dict(harness='h_interp_plain', params={}, label='percent signs without references, quoted list entries'))
    return J
