"""Regular expressions over partly symbolic text.

The subject is a list of characters (str of length 1, or a z3 integer term for a symbolic code point) of concrete length; the
pattern is concrete.  The pattern is parsed by CPython's own parser (re._parser) and matched by a backtracking matcher whose
single-character tests on symbolic characters are solver decisions (a SymBool truth test forks the path), so on every explored
path the matcher follows exactly the priority order of the sre engine: leftmost match, greedy / lazy preference, alternation
left to right.  Anything the matcher does not implement raises Unmodelled (the path is then checked concretely instead).

Validated against `re` on concrete subjects by sxv.selftest."""
import re as _re
import z3

try:
    import re._parser as _parser
    import re._constants as _c
except ImportError:                                   # Python < 3.11
    import sre_parse as _parser
    import sre_constants as _c

from sxv import core
from sxv.core import Unmodelled, SymBool, SymStr, SymTok, chars_of, mk

MAXREPEAT = _c.MAXREPEAT


def _truth(eng, cond):
    if isinstance(cond, bool):
        return cond
    return bool(SymBool(eng, cond))


class _M:
    """matcher state for one subject"""

    def __init__(self, eng, chars, flags, ngroups):
        self.eng = eng
        self.cs = chars
        self.n = len(chars)
        self.flags = flags
        self.ngroups = ngroups

    # ------------------------------------------------------------------ single-character predicates
    def _code(self, c):
        return ord(c) if isinstance(c, str) else c

    def is_lit(self, c, code):
        if isinstance(c, str):
            if self.flags & _re.IGNORECASE:
                return c.lower() == chr(code).lower()
            return ord(c) == code
        if self.flags & _re.IGNORECASE:
            ch = chr(code)
            alts = {ord(ch.lower()), ord(ch.upper()), code}
            if any(a >= 128 for a in alts):
                self._ascii_only(c)
            return _truth(self.eng, z3.Or([c == a for a in sorted(alts)]))
        return _truth(self.eng, c == code)

    def _ascii_only(self, c):
        if not isinstance(c, str) and _truth(self.eng, c >= 128):
            raise Unmodelled('regex class test on a symbolic non-ASCII character')

    def in_range(self, c, lo, hi):
        if isinstance(c, str):
            if self.flags & _re.IGNORECASE:
                return any(lo <= ord(x) <= hi for x in {c, c.lower(), c.upper()})
            return lo <= ord(c) <= hi
        if self.flags & _re.IGNORECASE:
            self._ascii_only(c)
            conds = [z3.And(c >= lo, c <= hi)]
            # letters: the other case
            conds.append(z3.And(c >= 65, c <= 90, c + 32 >= lo, c + 32 <= hi))
            conds.append(z3.And(c >= 97, c <= 122, c - 32 >= lo, c - 32 <= hi))
            return _truth(self.eng, z3.Or(conds))
        return _truth(self.eng, z3.And(c >= lo, c <= hi))

    def category(self, c, cat):
        name = str(cat)
        neg = 'NOT_' in name
        if isinstance(c, str):
            if 'DIGIT' in name:
                r = bool(_re.match(r'\d', c, self.flags & _re.ASCII))
            elif 'SPACE' in name:
                r = bool(_re.match(r'\s', c, self.flags & _re.ASCII))
            elif 'WORD' in name:
                r = bool(_re.match(r'\w', c, self.flags & _re.ASCII))
            elif 'LINEBREAK' in name:
                r = c == '\n'
            else:
                raise Unmodelled('regex category %s' % name)
            return r != neg
        if 'LINEBREAK' in name:
            return _truth(self.eng, c == 10) != neg
        if not (self.flags & _re.ASCII):
            self._ascii_only(c)
        if 'DIGIT' in name:
            r = _truth(self.eng, z3.And(c >= 48, c <= 57))
        elif 'SPACE' in name:
            r = _truth(self.eng, z3.Or(z3.And(c >= 9, c <= 13), c == 32, z3.And(c >= 28, c <= 31) if not (self.flags & _re.ASCII) else False))
        elif 'WORD' in name:
            r = _truth(self.eng, z3.Or(z3.And(c >= 48, c <= 57), z3.And(c >= 65, c <= 90), z3.And(c >= 97, c <= 122), c == 95))
        else:
            raise Unmodelled('regex category %s' % name)
        return r != neg

    def in_set(self, c, items):
        neg = False
        hit = False
        for op, av in items:
            if op is _c.NEGATE:
                neg = True
                continue
            if hit:
                continue
            if op is _c.LITERAL:
                hit = self.is_lit(c, av)
            elif op is _c.RANGE:
                hit = self.in_range(c, av[0], av[1])
            elif op is _c.CATEGORY:
                hit = self.category(c, av)
            else:
                raise Unmodelled('regex set item %s' % op)
        return hit != neg

    def is_word(self, i):
        if i < 0 or i >= self.n:
            return False
        return self.category(self.cs[i], _c.CATEGORY_WORD)

    # ------------------------------------------------------------------ matching: generators of (end position, groups)
    def seq(self, items, k, i, groups):
        """match items[k:] at position i; yields (end, groups) in priority order"""
        if k == len(items):
            yield i, groups
            return
        op, av = items[k]
        if op is _c.LITERAL:
            if i < self.n and self.is_lit(self.cs[i], av):
                yield from self.seq(items, k + 1, i + 1, groups)
        elif op is _c.NOT_LITERAL:
            if i < self.n and not self.is_lit(self.cs[i], av):
                yield from self.seq(items, k + 1, i + 1, groups)
        elif op is _c.ANY:
            if i < self.n and ((self.flags & _re.DOTALL) or not self.is_lit_nocase(self.cs[i], 10)):
                yield from self.seq(items, k + 1, i + 1, groups)
        elif op is _c.IN:
            if i < self.n and self.in_set(self.cs[i], av):
                yield from self.seq(items, k + 1, i + 1, groups)
        elif op is _c.BRANCH:
            for alt in av[1]:
                for j, g in self.seq(list(alt), 0, i, groups):
                    yield from self.seq(items, k + 1, j, g)
        elif op is _c.SUBPATTERN:
            gid, add, dele, sub = av
            if add or dele:
                raise Unmodelled('regex inline flags in a group')
            for j, g in self.seq(list(sub), 0, i, groups):
                if gid is not None:
                    g = dict(g)
                    g[gid] = (i, j)
                yield from self.seq(items, k + 1, j, g)
        elif op in (_c.MAX_REPEAT, _c.MIN_REPEAT) or str(op) == 'POSSESSIVE_REPEAT':
            lo, hi, sub = av
            if str(op) == 'POSSESSIVE_REPEAT':
                raise Unmodelled('possessive repeat')
            yield from self.repeat(list(sub), lo, hi, op is _c.MAX_REPEAT, 0, i, groups, items, k)
        elif op is _c.AT:
            if self.at(av, i):
                yield from self.seq(items, k + 1, i, groups)
        elif op is _c.GROUPREF:
            if av in groups:
                a, b = groups[av]
                ln = b - a
                if i + ln <= self.n and all(self.same(self.cs[a + t], self.cs[i + t]) for t in range(ln)):
                    yield from self.seq(items, k + 1, i + ln, groups)
        elif op in (_c.ASSERT, _c.ASSERT_NOT):
            direction, sub = av
            if direction < 0:
                raise Unmodelled('regex look-behind')
            found = False
            for j, g in self.seq(list(sub), 0, i, groups):
                found = True
                if op is _c.ASSERT:
                    groups = g
                break
            if found == (op is _c.ASSERT):
                yield from self.seq(items, k + 1, i, groups)
        else:
            raise Unmodelled('regex operator %s' % op)

    def is_lit_nocase(self, c, code):
        if isinstance(c, str):
            return ord(c) == code
        return _truth(self.eng, c == code)

    def same(self, a, b):
        if isinstance(a, str) and isinstance(b, str):
            return a == b
        return _truth(self.eng, core._cz(a) == core._cz(b))

    def repeat(self, sub, lo, hi, greedy, count, i, groups, items, k):
        can_stop = count >= lo
        can_more = hi is MAXREPEAT or count < hi
        if greedy:
            if can_more:
                for j, g in self.seq(sub, 0, i, groups):
                    if j == i:
                        raise Unmodelled('regex repeat whose body matches the empty string')      # sre's handling of empty iterations is not reproduced
                    yield from self.repeat(sub, lo, hi, greedy, count + 1, j, g, items, k)
            if can_stop:
                yield from self.seq(items, k + 1, i, groups)
        else:
            if can_stop:
                yield from self.seq(items, k + 1, i, groups)
            if can_more:
                for j, g in self.seq(sub, 0, i, groups):
                    if j == i:
                        raise Unmodelled('regex repeat whose body matches the empty string')
                    yield from self.repeat(sub, lo, hi, greedy, count + 1, j, g, items, k)

    def at(self, where, i):
        name = str(where)
        if name in ('AT_BEGINNING_STRING',):
            return i == 0
        if name == 'AT_BEGINNING':
            if i == 0:
                return True
            return bool(self.flags & _re.MULTILINE) and self.is_lit_nocase(self.cs[i - 1], 10)
        if name == 'AT_END':
            if i == self.n:
                return True
            if i == self.n - 1 and self.is_lit_nocase(self.cs[i], 10):
                return True
            return bool(self.flags & _re.MULTILINE) and self.is_lit_nocase(self.cs[i], 10)
        if name == 'AT_END_STRING':
            return i == self.n
        if name == 'AT_BOUNDARY':
            return self.is_word(i - 1) != self.is_word(i)
        if name == 'AT_NON_BOUNDARY':
            return self.is_word(i - 1) == self.is_word(i)
        raise Unmodelled('regex anchor %s' % name)


class SymMatch:
    def __init__(self, pat, subject, chars, eng, start, end, groups, pos, endpos):
        self.re = pat
        self.string = subject
        self._cs = chars
        self._eng = eng
        self._spans = {0: (start, end)}
        self._spans.update(groups)
        self.pos = pos
        self.endpos = endpos
        self.lastindex = max(groups) if groups else None

    def _idx(self, g):
        if isinstance(g, str):
            return self.re.groupindex[g]
        return g

    def span(self, g=0):
        g = self._idx(g)
        if g > self.re.groups or g < 0:
            raise IndexError('no such group')
        return self._spans.get(g, (-1, -1))

    def start(self, g=0):
        return self.span(g)[0]

    def end(self, g=0):
        return self.span(g)[1]

    def _text(self, g, default=None):
        a, b = self.span(g)
        if a < 0:
            return default
        return mk(self._eng, self._cs[a:b])

    def group(self, *gs):
        if not gs:
            return self._text(0)
        if len(gs) == 1:
            return self._text(gs[0])
        return tuple(self._text(g) for g in gs)

    def __getitem__(self, g):
        return self._text(g)

    def groups(self, default=None):
        return tuple(self._text(g, default) for g in range(1, self.re.groups + 1))

    def groupdict(self, default=None):
        return {name: self._text(idx, default) for name, idx in self.re.groupindex.items()}

    def expand(self, template):
        raise Unmodelled('Match.expand on symbolic text')

    def __bool__(self):
        return True


def _compile(pattern, flags=0):
    if hasattr(pattern, 'pattern'):
        return pattern
    return _re.compile(pattern, flags)


_PARSED = {}


def _parsed(pat):
    key = (pat.pattern, pat.flags)
    if key not in _PARSED:
        if isinstance(pat.pattern, bytes):
            raise Unmodelled('bytes regex')
        _PARSED[key] = list(_parser.parse(pat.pattern, pat.flags))
    return _PARSED[key]


def _subject(s):
    if type(s) in (SymStr, SymTok):
        ss = core.as_symstr(s)
        return ss.eng, list(chars_of(ss))
    return core.CUR, list(s)


def _match_at(pat, eng, chars, i, full=False, nonempty=False):
    items = _parsed(pat)
    m = _M(eng, chars, pat.flags, pat.groups)
    for j, g in m.seq(items, 0, i, {}):
        if full and j != len(chars):
            continue
        if nonempty and j == i:
            continue
        return j, g
    return None


def search(pattern, string, flags=0, pos=0, endpos=None, _mode='search'):
    pat = _compile(pattern, flags)
    eng, chars = _subject(string)
    if endpos is not None:
        chars = chars[:endpos]
    n = len(chars)
    starts = [pos] if _mode in ('match', 'fullmatch') else range(pos, n + 1)
    for i in starts:
        r = _match_at(pat, eng, chars, i, full=_mode == 'fullmatch')
        if r is not None:
            return SymMatch(pat, string, chars, eng, i, r[0], r[1], pos, n)
    return None


def match(pattern, string, flags=0, pos=0, endpos=None):
    return search(pattern, string, flags, pos, endpos, _mode='match')


def fullmatch(pattern, string, flags=0, pos=0, endpos=None):
    return search(pattern, string, flags, pos, endpos, _mode='fullmatch')


def finditer(pattern, string, flags=0, pos=0, endpos=None):
    pat = _compile(pattern, flags)
    eng, chars = _subject(string)
    if endpos is not None:
        chars = chars[:endpos]
    n = len(chars)
    i = pos
    must_advance = False                      # the previous match was empty: no second empty match at the same position
    while i <= n:
        found = None
        for s in range(i, n + 1):
            r = _match_at(pat, eng, chars, s, nonempty=must_advance and s == i)
            if r is not None:
                found = (s, r)
                break
        if found is None:
            return
        s, (j, g) = found
        yield SymMatch(pat, string, chars, eng, s, j, g, pos, n)
        must_advance = j == s
        i = j


def findall(pattern, string, flags=0, pos=0, endpos=None):
    pat = _compile(pattern, flags)
    out = []
    for m in finditer(pat, string, 0, pos, endpos):
        if pat.groups == 0:
            out.append(m.group(0))
        elif pat.groups == 1:
            out.append(m.group(1) if m.start(1) >= 0 else '')
        else:
            out.append(tuple(x if x is not None else '' for x in m.groups()))
    return out


def _expand_template(pat, repl, m):
    """replacement template with \\1, \\g<name> references"""
    if type(repl) in (SymStr, SymTok):
        rc = list(chars_of(core.as_symstr(repl)))
        for c in rc:
            if not isinstance(c, str) and _truth(m._eng, c == 92):
                raise Unmodelled('symbolic replacement containing a backslash')
        return rc
    if '\\' not in repl:
        return list(repl)
    out = []
    try:
        tpl = _parser.parse_template(repl, pat)
    except Exception:
        raise Unmodelled('replacement template')
    # 3.12: (groups, literals) with groups = [(index, group)], literals list with None at group slots
    if isinstance(tpl, tuple) and len(tpl) == 2 and isinstance(tpl[1], list) and (not tpl[0] or isinstance(tpl[0][0], tuple)):
        groups, literals = tpl
        lits = list(literals)
        fill = dict(groups)
        for idx, lit in enumerate(lits):
            if idx in fill:
                t = m._text(fill[idx])
                if t is not None:
                    out.extend(chars_of(t) if type(t) in (SymStr, SymTok) else list(t))
            elif lit is not None:
                out.extend(lit)
        return out
    # 3.12+ list form: [literal, group, literal, group, ..., literal]
    if isinstance(tpl, list):
        for k, part in enumerate(tpl):
            if k % 2 == 0:
                if part:
                    out.extend(part)
            else:
                t = m._text(part)
                if t is not None:
                    out.extend(chars_of(t) if type(t) in (SymStr, SymTok) else list(t))
        return out
    raise Unmodelled('replacement template form')


def subn(pattern, repl, string, count=0, flags=0):
    pat = _compile(pattern, flags)
    eng, chars = _subject(string)
    out = []
    pos = 0
    n = 0
    for m in finditer(pat, string):
        if count and n >= count:
            break
        out.extend(chars[pos:m.start()])
        if callable(repl):
            r = repl(m)
            out.extend(chars_of(r) if type(r) in (SymStr, SymTok) else list(r))
        else:
            out.extend(_expand_template(pat, repl, m))
        pos = m.end()
        n += 1
    out.extend(chars[pos:])
    return mk(eng, out), n


def sub(pattern, repl, string, count=0, flags=0):
    return subn(pattern, repl, string, count, flags)[0]


def split(pattern, string, maxsplit=0, flags=0):
    pat = _compile(pattern, flags)
    eng, chars = _subject(string)
    out = []
    pos = 0
    n = 0
    for m in finditer(pat, string):
        if maxsplit and n >= maxsplit:
            break
        out.append(mk(eng, chars[pos:m.start()]))
        for g in range(1, pat.groups + 1):
            out.append(m._text(g))
        pos = m.end()
        n += 1
    out.append(mk(eng, chars[pos:]))
    return out


FUNCS = {'search': search, 'match': match, 'fullmatch': fullmatch, 'finditer': finditer, 'findall': findall, 'sub': sub, 'subn': subn, 'split': split}
