"""Check driver:  ./check <ID> [--tier quick|thorough]   |   ./check --replay <file>

Loads plasTeX from /repo's current source through the instrumenting import hook, explores the property's
harnesses symbolically on 16 workers, replays every counterexample concretely against the *uninstrumented*
package in a fresh interpreter, writes evidence/<ID>.json, and exits
   0  all obligations discharged within the stated bounds (KNOWN-FINDING lines allowed)
   1  a replayed counterexample that known_findings.json does not list   (VIOLATION line)
   3  inconclusive (budget, solver unknown, model mismatch)  - never reported as success
"""
import sys, os, json, time, hashlib, importlib, subprocess, re, argparse, traceback, inspect
import multiprocessing as mp

ROOT = os.path.dirname(os.path.dirname(os.path.abspath(__file__)))
sys.path.insert(0, ROOT)
sys.setrecursionlimit(10000)


def _load(prop, instrumented=True):
    if instrumented:
        from sxv import inst
        inst.install()
    return importlib.import_module('sxv.props.%s' % prop.lower())


# ------------------------------------------------------------------------------------------ worker side
_MOD = None


def _run_job(job):
    from sxv import core, inst
    mod = _MOD
    h = getattr(mod, job['harness'])
    params = job.get('params', {})
    reset = getattr(mod, 'reset', None)

    def fn(e):
        inst.reset_path_state()
        if reset:
            reset()
        h(e, **params)
    e = core.Engine(max_paths=job.get('max_paths'), deadline=job.get('deadline'), prefix=job.get('prefix'),
                    fixed=job.get('fixed'), chunk=job.get('chunk'), seed=job.get('seed', 0),
                    sample_every=job.get('sample_every', 0), max_failures=job.get('max_failures', 6))
    e.known_sigs = [(kid, re.compile(rx)) for kid, rx in job.get('known', [])]
    e.twin = bool(job.get('twin'))
    if e.twin:
        _install_twin(e)
    try:
        e.run(fn)
    except BaseException as ex:       # noqa  engine bug: report, never hide
        return {'job': _jobkey(job), 'error': ''.join(traceback.format_exception(type(ex), ex, ex.__traceback__))[-3000:]}
    finally:
        if reset:
            reset()
    r = {'job': _jobkey(job), 'stats': e.stats(), 'failures': e.failures, 'degraded': e.degraded,
         'samples': e.samples, 'conts': e.conts, 'idx': job.get('idx'), 'known_hits': e.known_hits}
    return r


def _install_twin(e):
    orig = e.check

    def check(cond, what='', sig=None):
        orig(False, 'TWIN ' + str(what), 'twin')
    e.check = check


def _jobkey(job):
    return {k: job[k] for k in ('harness', 'params', 'label', 'twin') if k in job}


# ------------------------------------------------------------------------------------------ replay side
def replay_records(prop, records, twin=False):
    """run in a fresh interpreter WITHOUT the import hook; returns one verdict per record"""
    payload = json.dumps({'prop': prop, 'records': records, 'twin': twin,
                          'known': [(k['id'], k['sig']) for k in load_known(prop) if k.get('status') == 'known']})
    env = dict(os.environ, PYTHONHASHSEED='0', SXV_CONCRETE='1')
    p = subprocess.run([sys.executable, '-m', 'sxv.run', '--replay-batch', '-'], input=payload.encode(), cwd=ROOT,
                       env=env, stdout=subprocess.PIPE, stderr=subprocess.PIPE, timeout=1800)
    out = p.stdout.decode(errors='replace')
    m = re.search(r'^REPLAY-RESULT (.*)$', out, re.M)
    if not m:
        raise RuntimeError('replay subprocess failed: %s\n%s' % (out[-2000:], p.stderr.decode(errors='replace')[-3000:]))
    return json.loads(m.group(1))


def _replay_batch_main():
    from sxv import core
    data = json.loads(sys.stdin.read())
    assert 'sxv.inst' not in sys.modules or not sys.modules['sxv.inst'].installed()
    mod = _load(data['prop'], instrumented=False)
    out = []
    for rec in data['records']:
        out.append(_replay_one(mod, rec, data.get('twin'), data.get('known')))
    print('REPLAY-RESULT ' + json.dumps(out))


def _replay_one(mod, rec, twin=False, known=None):
    from sxv import core
    h = getattr(mod, rec['harness'])
    reset = getattr(mod, 'reset', None)
    if reset:
        reset()
    e = core.ConcreteEngine(rec.get('inputs') or {}, rec.get('choices'))
    e.known_sigs = [(kid, re.compile(rx)) for kid, rx in (known or [])]
    if twin:
        orig = e.check
        e.check = lambda cond, what='', sig=None: orig(False, 'TWIN ' + str(what), 'twin')
    try:
        st = e.run(lambda en: h(en, **rec.get('params', {})))
        res = {'status': st, 'failed': e.failed, 'obs': e.obs, 'known': e.known_hits, 'nchecks': getattr(e, 'nchecks', 0)}
    except BaseException as ex:     # noqa
        tb = traceback.extract_tb(ex.__traceback__)
        loc = '%s:%s' % (tb[-1].filename.split('/')[-1], tb[-1].lineno) if tb else '?'
        res = {'status': 'exception', 'failed': [{'what': 'raises %s: %s @%s' % (type(ex).__name__, str(ex)[:200], loc),
                                                  'sig': 'raises:' + type(ex).__name__}], 'obs': e.obs,
               'trace': ''.join(traceback.format_exception(type(ex), ex, ex.__traceback__))[-2500:]}
    finally:
        if reset:
            reset()
    return res


def replay_file(path):
    rec = json.load(open(path))
    mod = _load(rec['property'], instrumented=False)
    res = _replay_one(mod, rec)
    print(json.dumps(res, indent=1)[:4000])
    if res['status'] in ('failed', 'exception'):
        print('REPRODUCED property=%s %s' % (rec['property'], res['failed'][0]['what'] if res['failed'] else ''))
        return 1
    print('not reproduced')
    return 0


# ------------------------------------------------------------------------------------------ findings
def load_known(prop):
    p = os.path.join(ROOT, 'known_findings.json')
    if not os.path.exists(p):
        return []
    return [k for k in json.load(open(p)).get('findings', []) if k.get('property') == prop]


def match_known(known, sig, params):
    for k in known:
        if k.get('status') != 'known':
            continue
        if re.fullmatch(k['sig'], sig):
            return k
    return None


# ------------------------------------------------------------------------------------------ main driver
def src_hash(path):
    try:
        return hashlib.sha256(open(path, 'rb').read()).hexdigest()[:16]
    except OSError:
        return None


def main():
    ap = argparse.ArgumentParser()
    ap.add_argument('prop', nargs='?')
    ap.add_argument('--tier', default=os.environ.get('VERIF_TIER', 'quick'))
    ap.add_argument('--replay')
    ap.add_argument('--replay-batch')
    ap.add_argument('--jobs', type=int, default=int(os.environ.get('SXV_JOBS', '0')) or min(16, os.cpu_count() or 4))
    ap.add_argument('--only', help='substring filter on job labels (debugging)')
    ap.add_argument('--no-evidence', action='store_true')
    ap.add_argument('-v', action='store_true')
    a = ap.parse_args()
    if a.replay_batch:
        return _replay_batch_main()
    if a.replay:
        return sys.exit(replay_file(a.replay))
    prop = a.prop.upper()
    tier = a.tier if a.tier in ('quick', 'thorough') else 'quick'
    seed = int(os.environ.get('VERIF_SEED', '0') or 0)
    t0 = time.time()
    global _MOD
    mod = _MOD = _load(prop)
    from sxv import inst
    budget = getattr(mod, 'BUDGET_S', {'quick': 600, 'thorough': 3000})[tier]
    budget *= float(os.environ.get('SXV_BUDGET_SCALE', '1'))        # for validation runs on a loaded machine; the registered commands do not set it
    deadline = t0 + budget
    notes = []

    # 0. self tests of the proxies/models against the real builtins and classes (concrete, cheap)
    from sxv import selftest
    st = selftest.run(mod)
    if st['failed']:
        print('INCONCLUSIVE property=%s model self-test failed: %s' % (prop, st['failed'][:3]))
        return sys.exit(3)

    known = load_known(prop)
    known_pairs = [(k['id'], k['sig']) for k in known if k.get('status') == 'known']
    jobs = list(mod.jobs(tier, seed))
    if a.only:
        jobs = [j for j in jobs if a.only in j.get('label', j['harness'])]
    for j in jobs:
        j.setdefault('label', j['harness'])
        j.setdefault('seed', seed)
        j['deadline'] = deadline
        j['known'] = known_pairs
        j.setdefault('sample_every', getattr(mod, 'SAMPLE_EVERY', {'quick': 40, 'thorough': 200})[tier])
    twins = [dict(j, twin=True, max_paths=j.get('twin_paths', 60), sample_every=0, max_failures=2,
                  label=j['label'] + '#twin') for j in jobs if j.get('twin_me', False) or not j.get('no_twin')]
    if tier == 'quick':
        twins = twins[:max(1, min(4, len(twins)))]
    else:
        twins = twins[::max(1, len(twins) // 24)]
    for tj in twins:
        tj.pop('split', None)

    ctx = mp.get_context('fork')
    results, twinres = [], []
    for i, j in enumerate(jobs):
        j['idx'] = i
        j.pop('split', None)
    with ctx.Pool(a.jobs) as pool:
        # work distribution: every job explores a bounded chunk of paths and hands its pending alternatives back
        # as continuation jobs (prefix of the decision log + index from which it may backtrack)
        import queue as _queue
        outq = _queue.Queue()
        inflight = [0]
        nfail = {}

        def submit(job):
            inflight[0] += 1
            pool.apply_async(_run_job, (job,), callback=outq.put,
                             error_callback=lambda ex, job=job: outq.put({'job': _jobkey(job), 'error': repr(ex), 'idx': job.get('idx')}))
        for j in jobs:
            submit(dict(j, chunk=24))
        chunk = int(os.environ.get('SXV_CHUNK', '160'))
        while inflight[0]:
            r = outq.get()
            inflight[0] -= 1
            results.append(r)
            if 'error' in r:
                continue
            if r['failures']:
                nfail[r['idx']] = nfail.get(r['idx'], 0) + len(r['failures'])
            if nfail.get(r['idx'], 0) >= 4:
                continue                        # enough counterexamples for this job; do not explore further
            base = jobs[r['idx']]
            for pfx, fx in r['conts']:
                submit(dict(base, prefix=pfx, fixed=fx, chunk=chunk))
        for r in pool.imap_unordered(_run_job, twins, chunksize=1):
            twinres.append(r)

    if a.v:
        slow = sorted([(r['stats']['wall'], r['job'].get('label'), r['stats']['paths'], '') for r in results if 'stats' in r], reverse=True)[:12]
        for w, lab, np_, sp in slow:
            print('  slow: %.1fs %s paths=%d %s' % (w, lab, np_, sp))
    errors = [r for r in results + twinres if 'error' in r]
    if errors:
        print('INCONCLUSIVE property=%s engine error:\n%s' % (prop, errors[0]['error']))
        return sys.exit(3)

    agg = {'paths': 0, 'completed': 0, 'aborted': 0, 'queries': 0, 'checks': 0, 'proved': 0, 'knownobl': 0, 'solver_s': 0.0,
           'nontrivial': 0, 'resyncs': 0}
    tags, cuts, incomplete = {}, set(), []
    failures, degraded, samples = [], [], []
    perjob = {}
    for r in results:
        s = r['stats']
        for k in agg:
            agg[k] += s.get(k, 0)
        for t, n in s['tags'].items():
            tags[t] = tags.get(t, 0) + n
        cuts.update(s['cuts'])
        if s['incomplete']:
            incomplete.append('%s: %s' % (r['job'].get('label'), s['incomplete']))
        lab = r['job'].get('label')
        pj = perjob.setdefault(lab, {'paths': 0, 'checks': 0, 'completed': 0})
        pj['paths'] += s['paths']; pj['checks'] += s['checks']; pj['completed'] += s['completed']
        for f in r['failures']:
            failures.append(dict(f, harness=r['job']['harness'], params=r['job'].get('params', {}), label=lab))
        for d in r['degraded']:
            degraded.append(dict(d, harness=r['job']['harness'], params=r['job'].get('params', {}), label=lab))
        for sm in r['samples']:
            samples.append(dict(sm, harness=r['job']['harness'], params=r['job'].get('params', {}), label=lab))

    # 1. vacuity: every job must reach its obligations
    vacuous = [lab for lab, pj in perjob.items() if pj['checks'] == 0 and
               not any(j['label'] == lab and j.get('may_be_vacuous') for j in jobs)]
    # twins: the pipeline must report a (replayable) failure when the obligation is negated
    twin_ok = 0
    twin_bad = []
    twin_recs = []
    for r in twinres:
        if r['failures']:
            f = r['failures'][0]
            twin_recs.append({'harness': r['job']['harness'], 'params': r['job'].get('params', {}),
                              'inputs': f['inputs'], 'choices': f['choices'], 'label': r['job'].get('label')})
        else:
            twin_bad.append(r['job'].get('label'))
    if twin_recs:
        for rec, v in zip(twin_recs, replay_records(prop, twin_recs, twin=True)):
            if v['status'] == 'failed':
                twin_ok += 1
            else:
                twin_bad.append(rec['label'] + ' (concrete twin did not fail: %s)' % v['status'])

    # 2. replay counterexamples and degraded paths against the uninstrumented package
    viol, knownhits, unrepro, degr_viol = [], {}, [], []
    cand = []
    # witnesses of listed known findings seen by the workers: each must still reproduce concretely to be reported as such
    kh = {}
    for r in results:
        for kid, w in (r.get('known_hits') or {}).items():
            kh.setdefault(kid, dict(w, harness=r['job']['harness'], params=r['job'].get('params', {}), label=r['job'].get('label')))
    if kh:
        kids = sorted(kh)
        for kid, v in zip(kids, replay_records(prop, [kh[k] for k in kids])):
            sigs = [f['sig'] for f in v.get('failed', [])]
            kdef = [k for k in known if k['id'] == kid][0]
            if kid in (v.get('known') or []):
                knownhits[kid] = (kdef, kh[kid])
            else:
                unrepro.append((dict(kh[kid], what='known finding %s' % kid), v))
    seen = set()
    for f in failures:
        key = (f['harness'], json.dumps(f['params'], sort_keys=True), f['sig'])
        if key in seen and len([c for c in cand if c['sig'] == f['sig']]) >= 2:
            continue
        seen.add(key)
        cand.append(f)
    dcand = [d for d in degraded if d.get('inputs') is not None]
    dcand = dcand[:300]
    verdicts = replay_records(prop, cand + dcand) if (cand or dcand) else []
    os.makedirs(os.path.join(ROOT, 'replays'), exist_ok=True)

    def write_replay(c, v):
        rec = {'property': prop, 'harness': c['harness'], 'params': c['params'], 'inputs': c['inputs'],
               'choices': c['choices'], 'what': (v['failed'][0]['what'] if v.get('failed') else c.get('what')),
               'sig': (v['failed'][0]['sig'] if v.get('failed') else c.get('sig'))}
        dig = hashlib.sha256(json.dumps(rec, sort_keys=True).encode()).hexdigest()[:12]
        path = os.path.join(ROOT, 'replays', '%s-%s.json' % (prop, dig))
        json.dump(rec, open(path, 'w'), indent=1)
        return path, rec
    for c, v in zip(cand, verdicts[:len(cand)]):
        if v['status'] in ('failed', 'exception'):
            sig = v['failed'][0]['sig'] if v['failed'] else c['sig']
            if hasattr(mod, 'signature'):
                sig = mod.signature(sig, c)
            k = match_known(known, sig, c['params'])
            if k:
                knownhits.setdefault(k['id'], (k, c))
            else:
                path, rec = write_replay(c, v)
                viol.append((path, rec, sig))
        elif str(c.get('sig', '')).startswith('raises:') and v['status'] == 'ok':
            # an exception seen only under the proxies (a C function rejected a symbolic value): a modelling gap, not a
            # counterexample - the same input was just checked concretely on the real code and passed
            degraded.append({'reason': 'exception under proxies only: %s' % c.get('what', '')[:120], 'label': c['label'], 'inputs': c['inputs']})
            ndeg_gap = locals().get('ndeg_gap', 0) + 1
        else:
            unrepro.append((c, v))
    ndeg_ok = locals().get('ndeg_gap', 0)
    conc_checked = {}
    for c, v in zip(dcand, verdicts[len(cand):]):
        if v.get('nchecks'):
            conc_checked[c['label']] = conc_checked.get(c['label'], 0) + v['nchecks']
        if v['status'] in ('failed', 'exception'):
            sig = v['failed'][0]['sig'] if v['failed'] else 'degraded'
            if hasattr(mod, 'signature'):
                sig = mod.signature(sig, c)
            k = match_known(known, sig, c['params'])
            if k:
                knownhits.setdefault(k['id'], (k, c))
            else:
                c2 = dict(c, what=c.get('reason'), sig=sig)
                path, rec = write_replay(c2, v)
                viol.append((path, rec, sig))
        else:
            ndeg_ok += 1

    # 3. concolic cross-validation of sampled completed paths
    xv_n = xv_bad = 0
    xv_examples = []
    if samples:
        step = max(1, len(samples) // getattr(mod, 'XV_MAX', {'quick': 60, 'thorough': 300})[tier])
        pick = samples[(seed % step)::step]
        vs = replay_records(prop, pick)
        for smp, v in zip(pick, vs):
            xv_n += 1
            if v['status'] != 'ok' or v['obs'] != smp['obs']:
                xv_bad += 1
                xv_examples.append({'label': smp['label'], 'inputs': smp['inputs'], 'symbolic_obs': smp['obs'],
                                    'concrete': v})

    wall = time.time() - t0
    # ---------------------------------------------------------------- evidence
    fn_enc = []
    for spec in getattr(mod, 'FUNCTIONS', []):
        modname = spec.split(':')[0]
        path = inst.LOADED.get(modname)
        fn_enc.append({'function': spec, 'file': path, 'sha256_16': src_hash(path) if path else None})
    sample_cases = []
    for smp in samples[:3]:
        sample_cases.append({'job': smp['label'], 'inputs': smp['inputs'], 'choices': smp['choices'], 'observed': smp['obs']})
    if not sample_cases:
        sample_cases = [{'job': j['label'], 'params': j.get('params', {})} for j in jobs[:3]]
    exhaustive = not incomplete and not degraded
    level = getattr(mod, 'LEVEL', 'model_checking')
    cov = {
        'states': agg['completed'], 'transitions': agg['queries'],
        'traces_validated_against_impl': xv_n + len(cand) + len(dcand) + len(twin_recs),
        'samples': sample_cases,
        'evaluations': agg['paths'], 'distinct_nontrivial': agg['nontrivial'],
        'rule': getattr(mod, 'RULE', 'one evaluation = one explored path (distinct decision sequence) of a harness; '
                                     'non-trivial = path tagged by the harness rule'),
        'exhaustive': exhaustive,
        'technique': 'symbolic execution of the real functions (AST-instrumented from /repo source) with z3 deciding every '
                     'branch and proving the property per path',
        'functions_encoded': fn_enc,
        'bounds': getattr(mod, 'BOUNDS', {}).get(tier),
        'jobs': len(jobs), 'subjobs': len(results), 'paths_completed': agg['completed'], 'paths_infeasible_or_assumed_away': agg['aborted'],
        'obligations_checked': agg['checks'], 'obligations_proved': agg['proved'] - agg['knownobl'], 'obligations_refuted_by_listed_known_findings': agg['knownobl'],
        'solver_queries': agg['queries'], 'solver_s': round(agg['solver_s'], 2),
        'degraded_paths': len(degraded), 'degraded_concrete_ok': ndeg_ok,
        'degraded_reasons': sorted({d['reason'][:120] for d in degraded})[:12],
        'vacuity': {'case_tags_reached': tags, 'jobs_without_obligation': vacuous, 'twins_run': len(twinres),
                    'twins_detected_and_replayed': twin_ok, 'twins_missed': twin_bad},
        'cross_validation': {'paths_replayed_concretely': xv_n, 'mismatches': xv_bad},
        'cuts_and_stubs': sorted(cuts) + list(getattr(mod, 'CUTS', [])),
        'outside_claim': getattr(mod, 'OUTSIDE', []),
        'incomplete': incomplete,
        'model_selftest': st['n'],
        'known_findings_reported': sorted(knownhits),
        'resyncs': agg['resyncs'],
    }
    if level == 'fault_enumeration':
        pass
    ev = {'property_id': prop, 'tier': tier, 'seed': seed, 'level': level, 'coverage': cov,
          'assumptions': list(getattr(mod, 'ASSUMPTIONS', [])), 'wall_s': round(wall, 2), 'violations': len(viol)}
    if not a.no_evidence:
        os.makedirs(os.path.join(ROOT, 'evidence'), exist_ok=True)
        json.dump(ev, open(os.path.join(ROOT, 'evidence', prop + '.json'), 'w'), indent=1, default=str)

    # ---------------------------------------------------------------- verdict
    print('%s %s: %d jobs/%d subjobs, %d paths (%d completed), %d obligations (%d proved), %d queries, solver %.1fs, '
          'degraded %d, xval %d/%d ok, twins %d/%d, wall %.1fs'
          % (prop, tier, len(jobs), len(results), agg['paths'], agg['completed'], agg['checks'], agg['proved'] - agg['knownobl'],
             agg['queries'], agg['solver_s'], len(degraded), xv_n - xv_bad, xv_n, twin_ok, len(twinres), wall))
    if agg['knownobl']:
        print('NOTE %d obligation(s) are refuted by listed known findings (not counted as proved)' % agg['knownobl'])
    for kid, (k, c) in sorted(knownhits.items()):
        print('KNOWN-FINDING: property=%s %s: %s' % (prop, kid, k.get('what', '')))
    rc = 0
    if viol:
        shown = set()
        for path, rec, sig in viol:
            if sig in shown:
                continue
            shown.add(sig)
            print('VIOLATION property=%s replay=%s' % (prop, path))
            print('  what: %s' % rec['what'])
            print('  harness=%s params=%s inputs=%s' % (rec['harness'], json.dumps(rec['params'])[:300], json.dumps(rec['inputs'])[:300]))
        rc = 1
    problems = []
    if unrepro:
        problems.append('%d counterexample(s) did not reproduce on the uninstrumented code (model error): %s'
                        % (len(unrepro), json.dumps([(c['label'], c['what'], c['inputs'], v['status']) for c, v in unrepro[:3]], default=str)[:1500]))
    if xv_bad:
        problems.append('%d cross-validation mismatch(es): %s' % (xv_bad, json.dumps(xv_examples[:2], default=str)[:1500]))
    if incomplete:
        problems.append('incomplete exploration: %s' % incomplete[:4])
    # a job whose paths all had to be checked concretely (unmodelled flow on an edited tree) did evaluate its obligations there
    vacuous = [lab for lab in vacuous if not conc_checked.get(lab)]
    degraded_labels = set(d['label'] for d in degraded)
    twin_bad = [t for t in twin_bad if t.split('#twin')[0] not in degraded_labels]
    if vacuous:
        problems.append('jobs that never reached an obligation: %s' % vacuous[:5])
    if twin_bad:
        problems.append('negated-obligation twins not detected: %s' % twin_bad[:5])
    nfail_raw = sum(len(r['failures']) for r in results)
    if agg['checks'] - agg['proved'] != nfail_raw:
        problems.append('obligation accounting: %d obligations reached, %d proved, %d failed - some path ended inside an obligation'
                        % (agg['checks'], agg['proved'], nfail_raw))
    if degraded:
        notes.append('%d path(s) could not be followed symbolically and were checked concretely instead (%d ok): %s'
                     % (len(degraded), ndeg_ok, cov['degraded_reasons'][:3]))
    for n in notes:
        print('NOTE ' + n)
    if problems and rc == 0:
        for p in problems:
            print('INCONCLUSIVE property=%s %s' % (prop, p))
        rc = 3
    elif problems:
        for p in problems:
            print('NOTE ' + p)
    sys.exit(rc)


if __name__ == '__main__':
    main()
