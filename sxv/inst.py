"""AST instrumentation of the real plasTeX package (loaded from /repo's *current* source on every run).

The rewrite does not change control flow.  It reroutes operations CPython would perform in C without ever
consulting the proxies of sxv.core:  `in`, calls, subscripts, `%`-formatting, f-strings.  When no operand is
symbolic every helper performs exactly the original operation.
"""
import ast
import sys
import builtins
import importlib.abc
import importlib.machinery
import os as _os
import re as _re

import z3
from . import core
from .core import (SymBool, SymInt, SymReal, SymStr, SymTok, NumProxy, RealProxy, Unmodelled, mk, chars_of,
                   sym_contains, sym_not, is_sym, SYMTYPES, as_symstr)

_NOREWRITE = {'super', 'locals', 'globals', 'eval', 'exec', 'dir', 'vars', '__import__'}


class T(ast.NodeTransformer):
    def _n(self, name):
        return ast.Name(id=name, ctx=ast.Load())

    def visit_Compare(self, node):
        self.generic_visit(node)
        if len(node.ops) == 1 and isinstance(node.ops[0], (ast.In, ast.NotIn)):
            call = ast.Call(func=self._n('_sx_in'), args=[node.left, node.comparators[0]], keywords=[])
            if isinstance(node.ops[0], ast.NotIn):
                call = ast.Call(func=self._n('_sx_not'), args=[call], keywords=[])
            return ast.copy_location(call, node)
        return node

    def visit_Call(self, node):
        self.generic_visit(node)
        if isinstance(node.func, ast.Name) and node.func.id in _NOREWRITE:
            return node
        new = ast.Call(func=self._n('_sx_call'), args=[node.func] + node.args, keywords=node.keywords)
        return ast.copy_location(new, node)

    def visit_Subscript(self, node):
        self.generic_visit(node)
        if isinstance(node.ctx, ast.Load) and not isinstance(node.slice, ast.Slice):
            new = ast.Call(func=self._n('_sx_getitem'), args=[node.value, node.slice], keywords=[])
            return ast.copy_location(new, node)
        return node

    @staticmethod
    def _plain_sub(t):
        return isinstance(t, ast.Subscript) and not isinstance(t.slice, ast.Slice)

    def visit_Assign(self, node):
        self.generic_visit(node)
        if not any(self._plain_sub(t) for t in node.targets):
            return node
        if len(node.targets) == 1:
            t = node.targets[0]
            new = ast.Expr(ast.Call(func=self._n('_sx_setitem_v'), args=[node.value, t.value, t.slice], keywords=[]))
            return ast.copy_location(new, node)
        stmts = [ast.Assign(targets=[ast.Name(id='_sx_tmp', ctx=ast.Store())], value=node.value)]
        for t in node.targets:
            if self._plain_sub(t):
                stmts.append(ast.Expr(ast.Call(func=self._n('_sx_setitem_v'),
                                               args=[self._n('_sx_tmp'), t.value, t.slice], keywords=[])))
            else:
                stmts.append(ast.Assign(targets=[t], value=self._n('_sx_tmp')))
        return [ast.copy_location(x, node) for x in stmts]

    def visit_AugAssign(self, node):
        self.generic_visit(node)
        if self._plain_sub(node.target):
            t = node.target
            new = ast.Expr(ast.Call(func=self._n('_sx_augsub'),
                                    args=[t.value, t.slice, ast.Constant(type(node.op).__name__), node.value],
                                    keywords=[]))
            return ast.copy_location(new, node)
        if isinstance(node.op, ast.Mod):
            return node
        return node

    def visit_Delete(self, node):
        self.generic_visit(node)
        if not any(self._plain_sub(t) for t in node.targets):
            return node
        out = []
        for t in node.targets:
            if self._plain_sub(t):
                out.append(ast.Expr(ast.Call(func=self._n('_sx_delitem'), args=[t.value, t.slice], keywords=[])))
            else:
                out.append(ast.Delete(targets=[t]))
        return [ast.copy_location(x, node) for x in out]

    def visit_BinOp(self, node):
        self.generic_visit(node)
        if isinstance(node.op, ast.Mod):
            new = ast.Call(func=self._n('_sx_mod'), args=[node.left, node.right], keywords=[])
            return ast.copy_location(new, node)
        return node

    def visit_JoinedStr(self, node):
        self.generic_visit(node)
        for v in node.values:
            if isinstance(v, ast.FormattedValue) and (v.conversion != -1 or v.format_spec is not None):
                return node
        args = []
        for v in node.values:
            if isinstance(v, ast.Constant):
                args.append(ast.Tuple(elts=[ast.Constant(False), v], ctx=ast.Load()))
            else:
                args.append(ast.Tuple(elts=[ast.Constant(True), v.value], ctx=ast.Load()))
        new = ast.Call(func=self._n('_sx_fstr'), args=args, keywords=[])
        return ast.copy_location(new, node)


# ----------------------------------------------------------------------------------------- runtime helpers
_MISSING = object()
SYMDICTS = set()        # id()s of dicts that hold symbolic keys (reset per path by the harness runner)
_SYMDICT_KEEP = []


def reset_path_state():
    SYMDICTS.clear()
    del _SYMDICT_KEEP[:]


def _sx_not(x):
    if type(x) is SymBool:
        return ~x
    return not x


def _issymkey(k):
    return type(k) in (SymStr, SymTok, SymInt, NumProxy)


def _find(d, key):
    """linear symbolic search for `key` among the keys of dict d (forks per candidate)"""
    for k in list(dict.keys(d)):
        if k is key:
            return k
        if _issymkey(key):
            e = (key == k)
        elif _issymkey(k):
            e = (k == key)
        else:
            continue
        if e is False:
            continue
        if e is True or bool(e):
            return k
    if not _issymkey(key):
        try:
            if dict.__contains__(d, key):
                return key
        except TypeError:
            pass
    return _MISSING


def _symdict(d, key):
    return isinstance(d, dict) and (_issymkey(key) or id(d) in SYMDICTS)


def _sx_in(a, b):
    ta = type(a)
    if ta in _SYMSET or type(b) in _SYMSET:
        if isinstance(b, (str, SymStr, SymTok)):
            if isinstance(a, (str, SymStr, SymTok)):
                return sym_contains(b, a)
            raise TypeError("'in <string>' requires string as left operand")
        if isinstance(b, dict):
            return _find(b, a) is not _MISSING
    if isinstance(b, dict):
        if id(b) in SYMDICTS:
            return _find(b, a) is not _MISSING
        return a in b
    if isinstance(b, (list, tuple, set, frozenset)) or type(b).__name__ in ('dict_keys', 'dict_values'):
        if ta in _SYMSET or _has_sym(b):
            for x in list(b):
                if x is a:
                    return True
                e = (a == x) if ta in _SYMSET else (x == a)
                if e is False:
                    continue
                if e is True or bool(e):
                    return True
            return False
    return a in b


def _has_sym(seq):
    for x in seq:
        if type(x) in _SYMSET:
            return True
    return False


def _mark(d):
    if id(d) not in SYMDICTS:
        SYMDICTS.add(id(d))
        _SYMDICT_KEEP.append(d)


def _sx_setitem_v(val, obj, key):
    if _symdict(obj, key):
        k = _find(obj, key)
        if _issymkey(key) and k is _MISSING:
            _mark(obj)
        type(obj).__setitem__(obj, key if k is _MISSING else k, val) if type(obj).__setitem__ is not dict.__setitem__ \
            and not _issymkey(key) else dict.__setitem__(obj, key if k is _MISSING else k, val)
        return
    if type(key) is SymInt and isinstance(obj, list):
        n = len(obj)
        for j in range(-n, n):
            if key == j:
                obj[j] = val
                return
        raise IndexError('list assignment index out of range')
    obj[key] = val


def _sx_delitem(obj, key):
    if _symdict(obj, key):
        k = _find(obj, key)
        if k is _MISSING:
            raise KeyError(key)
        dict.__delitem__(obj, k)
        return
    if type(key) is SymInt and isinstance(obj, list):
        n = len(obj)
        for j in range(-n, n):
            if key == j:
                del obj[j]
                return
        raise IndexError('list assignment index out of range')
    del obj[key]


def _sx_getitem(obj, key):
    tk = type(key)
    if tk in _SYMSET:
        if isinstance(obj, dict):
            r = _find_chain(obj, key)
            if r is _MISSING:
                return _missing(obj, key)
            return r[1]
        if tk in (SymInt, NumProxy) and isinstance(obj, (list, tuple, str)):
            n = len(obj)
            for j in range(-n, n):
                if key == j:
                    return obj[j]
            raise IndexError('%s index out of range' % type(obj).__name__)
    elif SYMDICTS and isinstance(obj, dict) and _dict_has_symkeys_chain(obj):
        r = _find_chain(obj, key)
        if r is _MISSING:
            return _missing(obj, key)
        return r[1]
    return obj[key]


def _missing(obj, key):
    m = getattr(type(obj), '__missing__', None)
    if m is not None:
        return m(obj, key)
    if type(obj).__name__ == 'Counters':
        return type(obj).__getitem__(obj, key)
    raise KeyError(key)


def _dict_has_symkeys_chain(d):
    while d is not None:
        if id(d) in SYMDICTS:
            return True
        d = getattr(d, 'parent', None)
    return False


def _find_chain(obj, key):
    """lookup of a symbolic key in a dict (following ContextItem.parent chains); returns (k, value)"""
    d = obj
    seen = 0
    while d is not None and seen < 1000:
        k = _find(d, key)
        if k is not _MISSING:
            return (k, dict.__getitem__(d, k))
        p = getattr(d, 'parent', None)
        if p is None or p is d or not isinstance(p, dict):
            break
        d = p
        seen += 1
    return _MISSING


_OPS = {'Add': lambda a, b: a + b, 'Sub': lambda a, b: a - b, 'Mult': lambda a, b: a * b,
        'Div': lambda a, b: a / b, 'FloorDiv': lambda a, b: a // b, 'Mod': lambda a, b: _sx_mod(a, b),
        'Pow': lambda a, b: a ** b, 'BitOr': lambda a, b: a | b, 'BitAnd': lambda a, b: a & b,
        'BitXor': lambda a, b: a ^ b, 'LShift': lambda a, b: a << b, 'RShift': lambda a, b: a >> b,
        'MatMult': lambda a, b: a @ b}
_IOPS = {'Add': '__iadd__', 'Sub': '__isub__', 'Mult': '__imul__', 'BitOr': '__ior__', 'BitAnd': '__iand__'}


def _sx_augsub(obj, key, op, val):
    old = _sx_getitem(obj, key)
    im = _IOPS.get(op)
    if im is not None and hasattr(type(old), im) and type(old) not in _SYMSET:
        new = getattr(old, im)(val)
        if new is NotImplemented:
            new = _OPS[op](old, val)
    else:
        new = _OPS[op](old, val)
    _sx_setitem_v(new, obj, key)


def _fmt_arg(conv, x):
    if conv == 's':
        if isinstance(x, (SymStr, SymTok)):
            return chars_of(x)
        if type(x) in (SymInt, NumProxy):
            return chars_of(core.int_to_str(x))
        if isinstance(x, SymBool):
            return list('True' if bool(x) else 'False')
        if isinstance(x, SymReal):
            raise Unmodelled('%s of symbolic real')
        return list(str(x))
    if conv in 'di':
        if type(x) in (SymInt, NumProxy):
            return chars_of(core.int_to_str(x))
        if isinstance(x, SymReal):
            return chars_of(core.int_to_str(x.__int__()))
        return list('%d' % x)
    raise Unmodelled('format conversion %%%s with symbolic argument' % conv)


_FMT = _re.compile(r'%(?:\((\w+)\))?([-#0 +]*)(\d*)(?:\.(\d+))?([sdirfgxXc%])')


def _sx_mod_chars(a, b):
    out = []
    pos = 0
    idx = 0
    for m in _FMT.finditer(a):
        out.extend(a[pos:m.start()])
        pos = m.end()
        name, flags, width, prec, conv = m.groups()
        if conv == '%':
            out.append('%')
            continue
        if name is not None:
            x = b[name]
        elif type(b) is tuple:
            x = b[idx]
            idx += 1
        else:
            x = b
            idx += 1
        if type(x) in _SYMSET:
            if conv in 'di' and not flags and not width and prec and type(x) in (SymInt, NumProxy):
                # %.Nd : at least N digits, zero padded
                ds = _fmt_arg('d', x)
                neg = ds[:1] == ['-']
                body = ds[1:] if neg else ds
                body = ['0'] * max(0, int(prec) - len(body)) + body
                out.extend((['-'] if neg else []) + body)
                continue
            if flags or width or prec:
                raise Unmodelled('format flags with symbolic argument: %r' % a)
            out.extend(_fmt_arg(conv, x))
        else:
            out.extend(('%' + flags + width + ('.' + prec if prec else '') + conv) % (x,))
    out.extend(a[pos:])
    return out


_NUMSYM = frozenset([SymInt, NumProxy, SymReal, RealProxy])


def _sx_mod(a, b):
    if type(a) is str:
        tb = type(b)
        if tb in _SYMSET or (tb is tuple and _has_sym(b)) or (tb is dict and _has_sym(b.values())):
            eng = core.CUR
            vals = b if tb is tuple else (list(b.values()) if tb is dict else (b,))
            for x in vals:
                if type(x) in _NUMSYM or (type(x) is SymStr and x._c is None):
                    # rendering a symbolic number forks on its digits: do that only if the text is ever inspected
                    return SymStr.lazy(eng, lambda: _sx_mod_chars(a, b))
            return mk(eng, _sx_mod_chars(a, b))
        if isinstance(b, dict) and tb is not dict and core.CUR is not None and '%(' in a:
            # mapping with its own lookup (e.g. an interpolation wrapper): the looked-up values may be symbolic
            for m in _FMT.finditer(a):
                if m.group(1) is not None and type(b[m.group(1)]) in _SYMSET:
                    return mk(core.CUR, _sx_mod_chars(a, b))
        return a % b
    if type(a) in (SymStr, SymTok):
        return _sx_mod_symfmt(a, b)
    return a % b


def _sx_mod_symfmt(a, b):
    """a symbolic format string: only %% and %(name)s with a mapping are modelled"""
    cs = chars_of(a)
    eng = a.eng

    def isc(c, ch):
        return (c == ch) if isinstance(c, str) else bool(SymBool(eng, c == ord(ch)))
    out = []
    i = 0
    n = len(cs)
    while i < n:
        c = cs[i]
        if not isc(c, '%'):
            out.append(c)
            i += 1
            continue
        if i + 1 >= n:
            raise ValueError('incomplete format')
        d = cs[i + 1]
        if isc(d, '%'):
            out.append('%')
            i += 2
            continue
        if not isc(d, '('):
            raise Unmodelled('symbolic format string with a conversion other than %% and %(name)s')
        j = i + 2
        name = []
        while j < n and not isc(cs[j], ')'):
            if not isinstance(cs[j], str):
                raise Unmodelled('symbolic key name in format string')
            name.append(cs[j])
            j += 1
        if j + 1 >= n + 0 and j >= n:
            raise ValueError('incomplete format key')
        if j + 1 >= n or not isc(cs[j + 1], 's'):
            raise Unmodelled('symbolic format string with a conversion other than %(name)s')
        v = b[''.join(name)]
        out.extend(_fmt_arg('s', v) if type(v) in _SYMSET else str(v))
        i = j + 2
    return mk(eng, out)


def _sx_fstr(*parts):
    sym = False
    for isval, v in parts:
        if isval and type(v) in _SYMSET:
            sym = True
            break
    if not sym:
        return ''.join(format(v, '') if isval else v for isval, v in parts)
    out = []
    for isval, v in parts:
        if not isval:
            out.extend(v)
        elif type(v) in _SYMSET:
            out.extend(_fmt_arg('s', v))
        else:
            out.extend(format(v, ''))
    return mk(core.CUR, out)


# ---- call interception
def _h_ord(args, kw):
    a = args[0]
    if type(a) in (SymStr, SymTok):
        cs = chars_of(a)
        if len(cs) != 1:
            raise TypeError('ord() expected a character, but string of length %d found' % len(cs))
        return SymInt(a.eng, core._cz(cs[0]))
    return ord(a)


def _h_chr(args, kw):
    a = args[0]
    if type(a) in (SymInt, NumProxy):
        if not SymBool(a.eng, z3.And(a.z >= 0, a.z <= 0x10FFFF)):
            raise ValueError('chr() arg not in range(0x110000)')
        return SymStr(a.eng, [z3.simplify(a.z)])
    return chr(a)


def _h_int(args, kw):
    if args:
        a = args[0]
        ta = type(a)
        if ta in (SymStr, SymTok):
            return core.str_to_int(a, *(args[1:2] or [kw.get('base', 10)]))
        if ta in (SymInt, NumProxy):
            return SymInt(a.eng, a.z)
        if ta is SymBool:
            return SymInt(a.eng, core.zint(a))
        if ta in (SymReal, RealProxy):
            return a.__int__()
    return int(*args, **kw)


def _h_float(args, kw):
    if args:
        a = args[0]
        ta = type(a)
        if ta in (SymStr, SymTok):
            return core.str_to_float(as_symstr(a))
        if ta in (SymInt, NumProxy):
            return SymReal(a.eng, z3.ToReal(a.z))
        if ta in (SymReal, RealProxy):
            return SymReal(a.eng, a.z)
    return float(*args, **kw)


def _h_str(args, kw):
    if len(args) == 1:
        a = args[0]
        ta = type(a)
        if ta is SymStr:
            return a
        if ta is SymTok:
            return a.value      # Token.__str__: text content (encode/decode round trip is the identity)
        if ta in (SymInt, NumProxy):
            return core.int_to_str(a)
        if ta is SymBool:
            return 'True' if bool(a) else 'False'
        if ta in (SymReal, RealProxy):
            def _no():
                raise Unmodelled('str() of a symbolic real was inspected')
            return SymStr.lazy(a.eng, _no)
        if core.CUR is not None and ta is not str:
            # an object whose Python-level __str__ may produce symbolic text (e.g. a node being rendered):
            # call it directly - the C-level str() would reject a non-str result
            m = getattr(ta, '__str__', None)
            if type(m) is _FUNCTION:
                r = m(a)
                if type(r) in (SymStr, SymTok):
                    return r if type(r) is SymStr else r.value
                if type(r) is str:
                    return r
                if isinstance(r, str):
                    return str.__str__(r)
                raise TypeError('__str__ returned non-string (type %s)' % type(r).__name__)
    return str(*args, **kw)


def _h_repr(args, kw):
    a = args[0]
    if type(a) in _SYMSET:
        raise Unmodelled('repr() of a symbolic value')
    return repr(a)


def _h_isinstance(args, kw):
    a, t = args
    ta = type(a)
    if ta in _SYMSET:
        ts = t if type(t) is tuple else (t,)
        if ta is SymStr:
            return any(x in (str, object) for x in ts)
        if ta is SymBool:
            return any(x in (bool, int, object) for x in ts)
        if ta is SymInt:
            return any(x in (int, object) for x in ts)
        if ta is SymReal:
            return any(x in (float, object) for x in ts)
        cls = a.__class__
        return any(issubclass(cls, x) for x in ts)
    return isinstance(a, t)


def _h_type(args, kw):
    if len(args) == 3 and type(args[0]) in (SymStr, SymTok):
        # a class named by symbolic text: the name must be a real string - fork over its characters
        eng = args[0].eng
        name = ''.join(c if isinstance(c, str) else chr(eng.concretize(c)) for c in chars_of(args[0]))
        return type(name, *args[1:], **kw)
    if len(args) == 1:
        a = args[0]
        ta = type(a)
        if ta in _SYMSET:
            if ta is SymStr: return str
            if ta is SymBool: return bool
            if ta is SymInt: return int
            if ta is SymReal: return float
            return a.__class__
    return type(*args, **kw)


def _h_len(args, kw):
    return len(args[0])


def _h_hash(args, kw):
    a = args[0]
    if type(a) in (SymStr, SymTok):
        raise Unmodelled('hash() of a symbolic string')
    return hash(a)


def _h_round(args, kw):
    a = args[0]
    if type(a) in (SymReal, RealProxy):
        if len(args) > 1 or kw:
            raise Unmodelled('round(x, ndigits) of a symbolic real')
        # round half to even: floor(x + 1/2), one less when x + 1/2 is an odd integer
        x = a.z
        f = z3.ToInt(x + z3.RealVal('1/2'))
        half = z3.ToReal(f) == x + z3.RealVal('1/2')
        return SymInt(a.eng, z3.If(z3.And(half, f % 2 != 0), f - 1, f))
    if type(a) in (SymInt, NumProxy) and len(args) == 1 and not kw:
        return SymInt(a.eng, a.z)
    return round(*args, **kw)


def _h_bool(args, kw):
    if args:
        a = args[0]
        if type(a) is SymBool:
            return a
        if type(a) in (SymInt, NumProxy):
            return a != 0
        if type(a) in (SymStr, SymTok):
            return len(a) > 0
    return bool(*args, **kw)


def _h_splitext(args, kw):
    p = args[0]
    if type(p) in (SymStr, SymTok):
        # documented rule: split at the last dot of the last path component, leading dots do not count
        cs = chars_of(p)
        eng = p.eng

        def isc(c, ch):
            return (c == ch) if isinstance(c, str) else bool(SymBool(eng, c == ord(ch)))
        sep = -1
        for i in range(len(cs) - 1, -1, -1):
            if isc(cs[i], '/'):
                sep = i
                break
        dot = -1
        for i in range(len(cs) - 1, sep, -1):
            if isc(cs[i], '.'):
                dot = i
                break
        if dot > sep:
            k = sep + 1
            while k < dot:
                if not isc(cs[k], '.'):
                    return mk(eng, cs[:dot]), mk(eng, cs[dot:])
                k += 1
        return p if type(p) is SymStr else p.value, ''
    return _os.path.splitext(p)


def _h_dirname(args, kw):
    p = args[0]
    if type(p) in (SymStr, SymTok):
        cs = chars_of(p)
        eng = p.eng
        last = -1
        for i, c in enumerate(cs):
            if (c == '/') if isinstance(c, str) else bool(SymBool(eng, c == 47)):
                last = i
        if last < 0:
            return ''
        head = cs[:last]
        while head and ((head[-1] == '/') if isinstance(head[-1], str) else bool(SymBool(eng, head[-1] == 47))):
            head = head[:-1]
        return mk(eng, head) if head else '/'
    return _os.path.dirname(p)


def _could_contain(cs, lit):
    """can the literal occur in the (partly symbolic) character list?  symbolic characters may be anything"""
    n = len(lit)
    for i in range(len(cs) - n + 1):
        if all((not isinstance(c, str)) or c == l for c, l in zip(cs[i:i + n], lit)):
            return True
    return False


def _symre_call(name, args, kw):
    """re.<name>(pattern, ...) with symbolic subject / replacement text: the matcher of sxv.symre"""
    from sxv import symre
    if type(args[0]) in (SymStr, SymTok):
        raise Unmodelled('regular expression built from symbolic text')
    return symre.FUNCS[name](*args, **kw)


def _mk_re_handler(name, real):
    def h(args, kw):
        for a in args[:3]:
            if type(a) in (SymStr, SymTok):
                return _symre_call(name, args, kw)
        return real(*args, **kw)
    return h


def _h_re_sub(args, kw):
    if len(args) >= 3 and type(args[2]) in (SymStr, SymTok):
        pat = args[0].pattern if hasattr(args[0], 'pattern') else args[0]
        if isinstance(pat, str) and '(width|height|depth);' in pat:
            # image-placeholder pattern: every match needs one of these literals; if none can occur the text is unchanged
            cs = chars_of(args[2])
            if not any(_could_contain(cs, lit) for lit in ('width;', 'height;', 'depth;')):
                return args[2] if type(args[2]) is SymStr else args[2].value
        return _symre_call('sub', args, kw)
    if len(args) >= 2 and type(args[1]) in (SymStr, SymTok):
        return _symre_call('sub', args, kw)
    if len(args) >= 3 and callable(args[1]) and isinstance(args[2], str) and not kw and len(args) == 3 and core.CUR is not None:
        # replacement computed by a callable on concrete text: the callable may return symbolic text
        pat = args[0] if hasattr(args[0], 'finditer') else _re.compile(args[0])
        out = []
        pos = 0
        sym = False
        text = args[2]
        for m in pat.finditer(text):
            out.extend(text[pos:m.start()])
            pos = m.end()
            r = args[1](m)
            if type(r) in (SymStr, SymTok):
                sym = True
                out.extend(chars_of(r))
            else:
                out.extend(r)
        out.extend(text[pos:])
        return mk(core.CUR, out) if sym else ''.join(out)
    return _re.sub(*args, **kw)


def _h_int_new(args, kw):
    if len(args) >= 2 and type(args[1]) in _SYMSET:
        cls, a = args[0], args[1]
        ta = type(a)
        if ta in (SymInt, NumProxy):
            return NumProxy(cls, a) if cls is not int else SymInt(a.eng, a.z)
        if ta is SymBool:
            return NumProxy(cls, SymInt(a.eng, core.zint(a)))
        if ta in (SymStr, SymTok):
            return NumProxy(cls, core.str_to_int(a, *args[2:3]))
        if ta in (SymReal, RealProxy):
            return NumProxy(cls, a.__int__())
    return int.__new__(*args, **kw)


def _h_float_new(args, kw):
    if len(args) >= 2 and type(args[1]) in _SYMSET:
        cls, a = args[0], args[1]
        ta = type(a)
        if ta in (SymReal, RealProxy):
            return RealProxy(cls, a) if cls is not float else SymReal(a.eng, a.z)
        if ta in (SymInt, NumProxy):
            return RealProxy(cls, SymReal(a.eng, z3.ToReal(a.z)))
        if ta in (SymStr, SymTok):
            return RealProxy(cls, core.str_to_float(as_symstr(a)))
    return float.__new__(*args, **kw)


def _h_str_new(args, kw):
    if len(args) >= 2 and type(args[1]) in _SYMSET:
        cls, a = args[0], args[1]
        r = _h_str((a,), {})
        if cls is str:
            return r
        return SymTok(cls, as_symstr(r))
    return str.__new__(*args, **kw)


import string as _string


def _h_template_substitute(args, kw):
    """string.Template.substitute on a concrete template with symbolic values (documented rule: $$ -> $,
    $name / ${name} -> str(mapping[name]), KeyError when missing, ValueError on a stray $)"""
    self = args[0]
    mapping = args[1] if len(args) > 1 else kw
    if len(args) > 1 and kw:
        mapping = dict(args[1], **kw)
    vals = list(mapping.values()) if isinstance(mapping, dict) else []
    if not _has_sym(vals):
        return _string.Template.substitute(*args, **kw)
    out = []
    pos = 0
    tmpl = self.template
    for m in self.pattern.finditer(tmpl):
        out.extend(tmpl[pos:m.start()])
        pos = m.end()
        named = m.group('named') or m.group('braced')
        if named is not None:
            v = mapping[named]
            out.extend(chars_of(_h_str((v,), {})) if type(v) in _SYMSET else str(v))
        elif m.group('escaped') is not None:
            out.append(self.delimiter)
        elif m.group('invalid') is not None:
            raise ValueError('Invalid placeholder in string')
    out.extend(tmpl[pos:])
    return mk(core.CUR, out)


import shlex as _shlex


def _h_shlex_split(args, kw):
    s0 = args[0] if args else kw.get('s')
    if type(s0) in (SymStr, SymTok):
        # documented rule for text without quotes, escapes or comments: split on runs of whitespace
        eng = s0.eng
        for c in chars_of(s0):
            if not isinstance(c, str):
                if SymBool(eng, z3.Or([c == ord(x) for x in '"\'\\#'])):
                    raise Unmodelled('shlex.split of symbolic text with quotes/escapes/comments')
            elif c in '"\'\\#':
                raise Unmodelled('shlex.split of text with quotes/escapes/comments and symbolic parts')
        return as_symstr(s0).split()
    return _shlex.split(*args, **kw)


_HANDLERS = {int.__new__: _h_int_new, float.__new__: _h_float_new, str.__new__: _h_str_new, ord: _h_ord, chr: _h_chr, int: _h_int, float: _h_float, str: _h_str, repr: _h_repr,
             isinstance: _h_isinstance, type: _h_type, hash: _h_hash, round: _h_round, bool: _h_bool,
             _os.path.splitext: _h_splitext, _re.sub: _h_re_sub}

_SYMSET = frozenset([SymBool, SymInt, SymReal, SymStr, SymTok, NumProxy, RealProxy])
_PROXYSET = frozenset([SymTok, NumProxy, RealProxy])
_RE_PATTERN = type(_re.compile('x'))
_BUILTIN_METHOD2 = type(_re.compile('x').sub)          # 'builtin_method' (a subclass) since CPython 3.12
_BUILTIN_METHOD = type(''.join)
_METHOD_DESCR = type(str.join)
_STR_METHODS_SELF_CONCRETE = {'join', 'replace', 'startswith', 'endswith', 'find', 'rfind', 'index', 'count',
                              'split', 'strip', 'lstrip', 'rstrip', 'partition', '__contains__', '__eq__', '__ne__',
                              '__add__'}


def _sx_call(f, *args, **kw):
    tf = type(f)
    if tf is _BUILTIN_METHOD or tf is _BUILTIN_METHOD2:
        h = _HANDLERS.get(f)
        if h is not None:
            return h(args, kw)
        s = f.__self__
        if type(s) is _RE_PATTERN and args:
            sym = False
            for a in args:
                if type(a) in _SYMSET:
                    sym = True
                    break
            if sym:
                if f.__name__ == 'sub':
                    return _h_re_sub((s,) + args, kw)
                if f.__name__ in ('search', 'match', 'fullmatch', 'finditer', 'findall', 'split', 'subn'):
                    return _symre_call(f.__name__, (s,) + args, kw)
                raise Unmodelled('re.Pattern.%s on symbolic text' % f.__name__)
            return f(*args, **kw)
        if type(s) is str and f.__name__ == 'join' and len(args) == 1:
            items = args[0]
            if type(items) not in (list, tuple):
                items = list(items)
            if _has_sym(items):
                return _sym_method(s, 'join', (items,), kw)
            return f(items)
        if args and isinstance(s, (str, dict, list)):
            sym = False
            for a in args:
                ta = type(a)
                if ta in _SYMSET or ((ta is list or ta is tuple) and _has_sym(a)):
                    sym = True
                    break
            if not sym and SYMDICTS and isinstance(s, dict) and id(s) in SYMDICTS:
                sym = True
            if sym:
                return _sym_method(s, f.__name__, args, kw)
        return f(*args, **kw)
    if tf is type:
        h = _HANDLERS.get(f)
        if h is not None:
            return h(args, kw)
        if args:
            a = args[0]
            ta = type(a)
            if ta in _SYMSET:
                if issubclass(f, str):
                    if ta in (SymStr, SymTok):
                        return SymTok(f, as_symstr(a))
                    if ta in (SymInt, NumProxy):
                        return SymTok(f, as_symstr(core.int_to_str(a)))
                elif issubclass(f, bool):
                    pass
                elif issubclass(f, int) and f.__new__ is int.__new__:
                    if ta in (SymInt, NumProxy):
                        return NumProxy(f, a)
                    if ta in (SymStr, SymTok):
                        return NumProxy(f, core.str_to_int(a))
                elif issubclass(f, float) and f.__new__ is float.__new__:
                    if ta in (SymReal, RealProxy):
                        return RealProxy(f, a)
                    if ta in (SymInt, NumProxy):
                        return RealProxy(f, SymReal(a.eng, z3.ToReal(a.z)))
        r = f(*args, **kw)
        if type(r) in _PROXYSET and r.__class__ is f:
            # type.__call__ skips __init__ because the proxy is not a real instance: run it ourselves
            init = f.__init__
            if type(init) is _FUNCTION:
                init(r, *args, **kw)
        return r
    if tf is _METHOD_DESCR or tf is _WRAPPER_DESCR:
        # unbound C methods such as str.__add__(self, other), dict.__getitem__(self, key), str.__len__(self)
        if args and (type(args[0]) in _SYMSET or (len(args) > 1 and type(args[1]) in _SYMSET)
                     or (SYMDICTS and id(args[0]) in SYMDICTS)):
            return _unbound(f, args, kw)
        return f(*args, **kw)
    if tf is _FUNCTION:
        h = _HANDLERS_PY.get(f)
        if h is not None:
            return h(args, kw)
    elif tf is _METHOD:
        h = _HANDLERS_PY.get(f.__func__)
        if h is not None:
            return h((f.__self__,) + args, kw)
    return f(*args, **kw)


_WRAPPER_DESCR = type(str.__add__)
_FUNCTION = type(_sx_not)
def _h_unidecode(args, kw):
    a = args[0]
    if type(a) in (SymStr, SymTok):
        eng = a.eng
        for c in chars_of(a):
            if not isinstance(c, str) and not SymBool(eng, c < 128):
                raise Unmodelled('unidecode of a symbolic non-ASCII character')
        return a if type(a) is SymStr else a.value
    return _unidecode_real(*args, **kw)


try:
    import unidecode as _unidecode_mod
    _unidecode_real = _unidecode_mod.unidecode
    _UNIDECODE = {_unidecode_mod.unidecode: _h_unidecode}
    if hasattr(_unidecode_mod, 'unidecode_expect_ascii'):
        _UNIDECODE[_unidecode_mod.unidecode_expect_ascii] = _h_unidecode
except ImportError:
    _UNIDECODE = {}

_HANDLERS_PY = {_os.path.dirname: _h_dirname, _shlex.split: _h_shlex_split, _os.path.splitext: _h_splitext, _re.sub: _h_re_sub, _string.Template.substitute: _h_template_substitute}
_HANDLERS_PY.update(_UNIDECODE)
for _n in ('search', 'match', 'fullmatch', 'finditer', 'findall', 'split', 'subn'):
    _HANDLERS_PY[getattr(_re, _n)] = _mk_re_handler(_n, getattr(_re, _n))
_METHOD = type(_string.Template('x').substitute)


def _unbound(f, args, kw):
    name = f.__name__
    owner = getattr(f, '__objclass__', None)
    s = args[0]
    if owner is str:
        target = s.value if type(s) is SymTok else s
        if type(target) is SymStr:
            if name == '__len__':
                return len(target.chars)
            if name == '__hash__':
                raise Unmodelled('str.__hash__ of symbolic string')
            if name == '__str__':
                return target
            return getattr(target, name)(*args[1:], **kw)
        # concrete self, symbolic argument
        return _sym_method(s, name, args[1:], kw)
    if owner is dict:
        if name == '__getitem__':
            k = _find(s, args[1])
            if k is _MISSING:
                raise KeyError(args[1])
            return dict.__getitem__(s, k)
        if name == '__contains__':
            return _find(s, args[1]) is not _MISSING
        if name == '__setitem__':
            k = _find(s, args[1])
            if _issymkey(args[1]) and k is _MISSING:
                _mark(s)
            return dict.__setitem__(s, args[1] if k is _MISSING else k, args[2])
        if name == '__delitem__':
            k = _find(s, args[1])
            if k is _MISSING:
                raise KeyError(args[1])
            return dict.__delitem__(s, k)
        return _sym_method(s, name, args[1:], kw)
    if owner is int or owner is float:
        raise Unmodelled('%s.%s on a symbolic number' % (owner.__name__, name))
    return f(*args, **kw)


def _sym_method(s, name, args, kw):
    """method `name` of a concrete str/dict/list `s` called with symbolic arguments"""
    if isinstance(s, str):
        if name in ('__eq__', '__ne__'):
            o = args[0]
            r = (o == s) if type(o) in (SymStr, SymTok) else (str.__str__(s) == o)
            return r if name == '__eq__' else _sx_not(r)
        S = SymStr(core.CUR, list(str.__str__(s)))
        if name == '__contains__':
            return sym_contains(S, args[0])
        return getattr(S, name)(*args, **kw)
    if isinstance(s, dict):
        if name == 'get':
            k = _find_chain(s, args[0]) if hasattr(s, 'parent') else _find(s, args[0])
            if k is _MISSING:
                return args[1] if len(args) > 1 else kw.get('default')
            return k[1] if type(k) is tuple and hasattr(s, 'parent') else dict.__getitem__(s, k)
        if name in ('__contains__', 'has_key'):
            return _find(s, args[0]) is not _MISSING
        if name == 'pop':
            k = _find(s, args[0])
            if k is _MISSING:
                if len(args) > 1:
                    return args[1]
                raise KeyError(args[0])
            return dict.pop(s, k)
        if name == 'setdefault':
            k = _find(s, args[0])
            if k is _MISSING:
                if _issymkey(args[0]):
                    _mark(s)
                dict.__setitem__(s, args[0], args[1] if len(args) > 1 else None)
                return args[1] if len(args) > 1 else None
            return dict.__getitem__(s, k)
        if name == '__getitem__':
            return _sx_getitem(s, args[0])
        if name == '__setitem__':
            return _sx_setitem_v(args[1], s, args[0])
        return getattr(s, name)(*args, **kw)
    if isinstance(s, list):
        if name in ('index', 'count', 'remove', '__contains__'):
            hits = []
            for i, x in enumerate(s):
                a = args[0]
                e = True if x is a else ((a == x) if type(a) in _SYMSET else (x == a))
                if e is True or (e is not False and bool(e)):
                    hits.append(i)
                    if name != 'count':
                        break
            if name == 'count':
                return len(hits)
            if name == '__contains__':
                return bool(hits)
            if not hits:
                raise ValueError('%r is not in list' % (args[0],))
            if name == 'index':
                return hits[0]
            del s[hits[0]]
            return None
        if name in ('insert', 'pop') and args and type(args[0]) in (SymInt, NumProxy):
            n = len(s)
            i = args[0]
            if name == 'pop':
                for j in range(-n, n):
                    if i == j:
                        return s.pop(j)
                raise IndexError('pop index out of range')
            # insert clamps
            for j in range(-n, n + 1):
                if i == j:
                    return s.insert(j, args[1])
            if i > n:
                return s.insert(n, args[1])
            return s.insert(0, args[1])
        return getattr(s, name)(*args, **kw)
    return getattr(s, name)(*args, **kw)


HELPERS = dict(_sx_in=_sx_in, _sx_not=_sx_not, _sx_call=_sx_call, _sx_getitem=_sx_getitem, _sx_mod=_sx_mod,
               _sx_setitem_v=_sx_setitem_v, _sx_delitem=_sx_delitem, _sx_augsub=_sx_augsub, _sx_fstr=_sx_fstr)


# ----------------------------------------------------------------------------------------- import hook
PREFIXES = ('plasTeX',)
LOADED = {}     # module name -> source path (for evidence: what was encoded)


class _Loader(importlib.machinery.SourceFileLoader):
    def get_code(self, fullname):
        path = self.get_filename(fullname)
        return self.source_to_code(self.get_data(path), path)       # never a .pyc: always current source

    def source_to_code(self, data, path, *, _optimize=-1):
        tree = T().visit(ast.parse(data, path))
        ast.fix_missing_locations(tree)
        return compile(tree, path, 'exec', dont_inherit=True)

    def exec_module(self, module):
        module.__dict__.update(HELPERS)
        LOADED[module.__name__] = self.path
        super().exec_module(module)


class _Finder(importlib.abc.MetaPathFinder):
    def find_spec(self, fullname, path, target=None):
        if not any(fullname == p or fullname.startswith(p + '.') for p in PREFIXES):
            return None
        spec = importlib.machinery.PathFinder.find_spec(fullname, path)
        if spec is None or not isinstance(spec.loader, importlib.machinery.SourceFileLoader):
            return spec
        spec.loader = _Loader(spec.loader.name, spec.loader.path)
        return spec


_installed = False


def install():
    global _installed
    if _installed:
        return
    if any(m == 'plasTeX' or m.startswith('plasTeX.') for m in sys.modules):
        raise RuntimeError('sxv.inst.install() must run before plasTeX is imported')
    sys.dont_write_bytecode = True
    sys.meta_path.insert(0, _Finder())
    _installed = True


def installed():
    return _installed
