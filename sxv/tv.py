"""Translator validation: run the repository's own test suite under the AST import hook.
The set of passing tests must be exactly BASELINE.json's stable-pass set."""
import sys, os, json, tempfile
import xml.etree.ElementTree as ET


def run(extra=None, quiet=True):
    sys.path.insert(0, os.path.dirname(os.path.dirname(os.path.abspath(__file__))))
    from sxv import inst
    inst.install()
    import pytest
    os.chdir('/repo')
    fd, xml = tempfile.mkstemp(suffix='.xml', dir='/var/tmp')
    os.close(fd)
    args = ['-q', '-p', 'no:cacheprovider', '--timeout=900', '--continue-on-collection-errors', '--junitxml=' + xml]
    if quiet:
        args += ['--no-header', '-rN', '--tb=no']
    pytest.main(args + (extra or []))
    passed = set()
    for tc in ET.parse(xml).getroot().iter('testcase'):
        if not any(ch.tag in ('failure', 'error', 'skipped') for ch in tc):
            passed.add('%s::%s' % (tc.get('classname'), tc.get('name')))
    os.unlink(xml)
    base = set(json.load(open('/root/.vp/BASELINE.json'))['stable_pass']) if os.path.exists('/root/.vp/BASELINE.json') else None
    return passed, base


if __name__ == '__main__':
    passed, base = run(sys.argv[1:])
    print('passed under hook:', len(passed))
    if base is not None:
        print('missing vs baseline:', sorted(base - passed))
        print('extra vs baseline:', sorted(passed - base))
        sys.exit(0 if passed == base else 1)
