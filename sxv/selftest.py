"""Validation of the C-level models (run at the start of every check): each model is evaluated with its
symbolic arguments pinned to z3 constants and compared with the real builtin / the real Token class."""
import os
import z3
from . import core, inst
from .core import SymStr, SymTok, SymInt, SymBool, Engine, concretize_value

STRS = ['', ' ', 'a', 'ab', ' a b ', 'a  b\tc\n', '\x85x ', 'a.b', '.a', 'a.b.c', '/x.y/z', 'x/.b', 'AbC', 'abcabc',
        'aaa', '12', '-7', '+3', '007', ' 42 ', '1.5', '.5', '5.', '-0.25', 'a-b--c', '``x\'\'', 'foo.tex', '..', 'é', 'Σx']
SUBS = ['', 'a', 'b', 'ab', ' ', '.', 'aa', '--', 'bc']
RE_PATS = [r'(?:0\.)+', r'^\s*(\w+)\s*=\s*(.*)$', r'(\w+)(?:\((\W)\))?', r'a|ab', r'(a|ab)(c|bcd)(d*)', r'x*', r'\d+\.\d*', r'[^a-c]+', r'(?i)ab+', r'\bfoo\b', r'(a)|(b)',
           r'a{2,3}?', r'(?m)^b', r'b$', r'.+?;', r'(\d)(?=\.)', r'(?!a)\w', r'(\w)\1', r'\s+', r'[-+]?\d*\.?\d+', r'%\((\w+)\)s', r'&#(\d+);', r'\A\w+\Z', r'(?s).b', r'\\(\w+)']
RE_SUBJ = ['', 'a', 'ab', 'abcd', '10.1', '0.0.7', 'x = 1 ', 'foo(,)', 'aab', 'xxabxx', 'a\nb', 'b\n', 'foo bar', 'AbB', '1.5pt', '-.5', '%(abc)s!', '&#65;x', 'aa', 'a1.2', '\\foo bar', 'abcbcd', 'a;b;']


def pin(eng, s):
    return SymStr(eng, [z3.IntVal(ord(c)) for c in s])


def force(v):
    if isinstance(v, (list, tuple)):
        for x in v:
            force(x)
    elif isinstance(v, SymStr):
        v.chars


def same(a, b):
    return a == b and type(a) in (type(b), str, int, bool, float, tuple, list) or a == b


def run(mod=None):
    eng = Engine()
    eng.begin_path()
    failed = []
    n = 0

    def m():
        eng.solver.check()
        return eng.solver.model()

    def cmp(desc, sym_thunk, real_thunk):
        nonlocal n
        n += 1
        try:
            r = real_thunk()
            rexc = None
        except Exception as ex:
            r, rexc = None, type(ex).__name__
        try:
            s = sym_thunk()
            sexc = None
        except core.Unmodelled:
            return              # a loud refusal is always acceptable
        except Exception as ex:
            s, sexc = None, type(ex).__name__
        if rexc or sexc:
            if rexc != sexc:
                failed.append((desc, 'exception', rexc, sexc))
            return
        force(s)
        sv = concretize_value(s, m())
        rv = core.plain(r)
        if sv != rv:
            failed.append((desc, rv, sv))

    for s in STRS:
        for meth in ('strip', 'lstrip', 'rstrip', 'upper', 'lower', 'isspace', 'isdigit', 'isalpha', 'split'):
            if any(ord(c) > 127 for c in s) and meth in ('upper', 'lower', 'isdigit', 'isalpha'):
                continue
            cmp('%r.%s()' % (s, meth), lambda: getattr(pin(eng, s), meth)(), lambda: getattr(s, meth)())
        cmp('len(%r)' % s, lambda: len(pin(eng, s)), lambda: len(s))
        cmp('int(%r)' % s, lambda: inst._sx_call(int, pin(eng, s)), lambda: int(s))
        if 'e' not in s.lower() and 'n' not in s.lower() and '_' not in s:
            cmp('float(%r)' % s, lambda: inst._sx_call(float, pin(eng, s)), lambda: float(s))
        cmp('splitext(%r)' % s, lambda: inst._sx_call(os.path.splitext, pin(eng, s)), lambda: os.path.splitext(s))
        cmp('strip(%r,"a.")' % s, lambda: pin(eng, s).strip('a.'), lambda: s.strip('a.'))
        cmp('split(None,1) %r' % s, lambda: pin(eng, s).split(None, 1), lambda: s.split(None, 1))
        for t in SUBS:
            cmp('%r in %r' % (t, s), lambda: inst._sx_in(pin(eng, t), s), lambda: t in s)
            cmp('%r in sym %r' % (t, s), lambda: inst._sx_in(t, pin(eng, s)), lambda: t in s)
            cmp('%r.find(%r)' % (s, t), lambda: pin(eng, s).find(t), lambda: s.find(t))
            cmp('%r.rfind(%r)' % (s, t), lambda: pin(eng, s).rfind(t), lambda: s.rfind(t))
            cmp('%r.startswith(%r)' % (s, t), lambda: pin(eng, s).startswith(t), lambda: s.startswith(t))
            cmp('%r.endswith(%r)' % (s, t), lambda: pin(eng, s).endswith(t), lambda: s.endswith(t))
            cmp('%r==%r' % (s, t), lambda: pin(eng, s) == t, lambda: s == t)
            cmp('%r<%r' % (s, t), lambda: pin(eng, s) < t, lambda: s < t)
            cmp('%r>=%r' % (s, t), lambda: pin(eng, s) >= t, lambda: s >= t)
            if t:
                cmp('%r.split(%r)' % (s, t), lambda: pin(eng, s).split(t), lambda: s.split(t))
                cmp('%r.count(%r)' % (s, t), lambda: pin(eng, s).count(t), lambda: s.count(t))
                cmp('%r.replace(%r,"Z")' % (s, t), lambda: pin(eng, s).replace(t, 'Z'), lambda: s.replace(t, 'Z'))
                cmp('conc %r.replace(sym %r)' % (s, t), lambda: inst._sx_call(s.replace, pin(eng, t), 'Z'), lambda: s.replace(t, 'Z'))
            cmp('%r.join' % t, lambda: inst._sx_call(t.join, [pin(eng, s), 'q', pin(eng, t)]), lambda: t.join([s, 'q', t]))
            cmp('%%s fmt', lambda: inst._sx_mod('<%s|%s>%%', (pin(eng, s), t)), lambda: '<%s|%s>%%' % (s, t))
            cmp('fstr', lambda: inst._sx_fstr((False, 'x'), (True, pin(eng, s)), (True, 3)), lambda: f'x{s}{3}')
    for v in (0, 1, 9, 10, 11, 99, 100, 4999, -1, -10, -123, 65535, 10 ** 9):
        cmp('str(%d)' % v, lambda: inst._sx_call(str, SymInt(eng, z3.IntVal(v))), lambda: str(v))
        cmp('%%d %d' % v, lambda: inst._sx_mod('%d-%s', (SymInt(eng, z3.IntVal(v)), SymInt(eng, z3.IntVal(v)))), lambda: '%d-%s' % (v, v))
        for d in (1, 2, 3, 7, 10):
            cmp('%d//%d' % (v, d), lambda: SymInt(eng, z3.IntVal(v)) // d, lambda: v // d)
            cmp('%d%%%d' % (v, d), lambda: SymInt(eng, z3.IntVal(v)) % d, lambda: v % d)
            cmp('%d//-%d' % (v, d), lambda: SymInt(eng, z3.IntVal(v)) // SymInt(eng, z3.IntVal(-d)), lambda: v // -d)
        cmp('chr/ord', lambda: inst._sx_call(ord, inst._sx_call(chr, SymInt(eng, z3.IntVal(abs(v) % 0x10FFFF)))), lambda: abs(v) % 0x10FFFF)
    for s in ('12', 'ff', 'FF', '7', '8', 'g', '', '1a'):
        for base in (8, 10, 16):
            cmp('int(%r,%d)' % (s, base), lambda: inst._sx_call(int, pin(eng, s), base), lambda: int(s, base))
    # Token model vs the real classes
    try:
        from plasTeX.Tokenizer import Token, Letter, Other, EscapeSequence, Space
        from plasTeX.DOM import Text
        samples = [(Letter, 'a'), (Other, 'a'), (Other, '1'), (EscapeSequence, 'par'), (EscapeSequence, 'a'), (Space, ' '), (Text, 'a')]
        others = [Letter('a'), Other('a'), Other('b'), EscapeSequence('par'), 'a', 'par', Text('a'), 5, None]
        for cls, txt in samples:
            real = cls(txt)
            sym = SymTok(cls, pin(eng, txt))
            for o in others:
                for opname, op in (('==', lambda x, y: x == y), ('!=', lambda x, y: x != y)):
                    cmp('%s(%r)%s%r' % (cls.__name__, txt, opname, o), lambda: op(sym, o), lambda: op(real, o))
                    cmp('%r%s%s(%r)' % (o, opname, cls.__name__, txt), lambda: op(o, sym), lambda: op(o, real))
                if isinstance(o, Token):
                    cmp('%s(%r)<%r' % (cls.__name__, txt, o), lambda: sym < o, lambda: real < o)
            cmp('str(tok)', lambda: inst._sx_call(str, sym), lambda: str(real))
            cmp('tok.catcode', lambda: sym.catcode, lambda: real.catcode)
            cmp('tok.macroName', lambda: sym.macroName, lambda: real.macroName)
            cmp('tok.nodeType', lambda: sym.nodeType, lambda: real.nodeType)
            cmp('isinstance', lambda: inst._sx_call(isinstance, sym, Token), lambda: isinstance(real, Token))
            cmp('source', lambda: sym.source, lambda: real.source)
            cmp('len', lambda: len(sym), lambda: len(real))
            cmp('tok+str', lambda: sym + 'x', lambda: real + 'x')
            cmp('str+tok', lambda: 'x' + sym, lambda: 'x' + real)
    except ImportError:
        pass
    from .core import SymReal
    from fractions import Fraction
    for fr in ('0', '1/2', '3/2', '5/2', '-1/2', '-3/2', '7/3', '-7/3', '2', '-2', '1/4', '3/4', '999999/2', '1000001/2'):
        q = Fraction(fr)
        cmp('round(%s)' % fr, lambda: inst._sx_call(round, SymReal(eng, z3.RealVal(fr))), lambda: round(q))
    # the regular-expression matcher over symbolic text against `re` (subjects pinned to constants)
    import re
    from . import symre

    def mres(mo):
        return None if mo is None else (mo.span(), tuple(mo.groups()), [mo.span(i) for i in range(mo.re.groups + 1)])
    for p in RE_PATS:
        cp = re.compile(p)
        for s in RE_SUBJ:
            for fn in ('search', 'match', 'fullmatch'):
                cmp('re.%s(%r, %r)' % (fn, p, s), lambda: mres(getattr(symre, fn)(cp, pin(eng, s))), lambda: mres(getattr(cp, fn)(s)))
            cmp('re.findall(%r, %r)' % (p, s), lambda: symre.findall(cp, pin(eng, s)), lambda: cp.findall(s))
            cmp('re.split(%r, %r)' % (p, s), lambda: symre.split(cp, pin(eng, s)), lambda: cp.split(s))
            for repl in ('-', r'<\g<0>>'):
                cmp('re.sub(%r, %r, %r)' % (p, repl, s), lambda: symre.sub(cp, repl, pin(eng, s)), lambda: cp.sub(repl, s))
    core.CUR = None
    return {'n': n, 'failed': failed}


if __name__ == '__main__':
    import sys
    sys.path.insert(0, os.path.dirname(os.path.dirname(os.path.abspath(__file__))))
    inst.install()
    r = run()
    print(r['n'], 'comparisons;', len(r['failed']), 'failed')
    for f in r['failed'][:40]:
        print(f)
