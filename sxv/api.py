"""Helpers for harnesses and reference models that must run both symbolically (proxies, instrumented package)
and concretely (plain values, uninstrumented package)."""
from . import core
from .core import SymStr, SymTok, SymInt, SymBool, SymReal, NumProxy, RealProxy, is_sym, mk


def ord_(c):
    if isinstance(c, (SymStr, SymTok)):
        from . import inst
        return inst._h_ord((c,), {})
    return ord(c)


def chr_(n):
    if isinstance(n, SymInt):
        from . import inst
        return inst._h_chr((n,), {})
    return chr(n)


def str_(x):
    if is_sym(x):
        from . import inst
        return inst._h_str((x,), {})
    return str(x)


def int_(x, *a):
    if is_sym(x):
        from . import inst
        return inst._h_int((x,) + a, {})
    return int(x, *a)


def text_of(tok):
    """the text of a token / text node as SymStr or str"""
    if isinstance(tok, SymTok):
        return tok.value
    if isinstance(tok, SymStr):
        return tok
    return str.__str__(tok) if isinstance(tok, str) else tok


def chars(x):
    """list of 1-char strings (plain or symbolic)"""
    x = text_of(x)
    if isinstance(x, SymStr):
        return [c if isinstance(c, str) else SymStr(x.eng, [c]) for c in x.chars]
    return list(x)


def cat(parts):
    """concatenate strings / chars (plain or symbolic)"""
    out = []
    eng = None
    for p in parts:
        p = text_of(p)
        if isinstance(p, SymStr):
            eng = p.eng
            out.extend(p.chars)
        else:
            out.extend(p)
    return mk(eng, out) if eng is not None else ''.join(out)


def eq(a, b):
    """a == b on texts; SymBool or bool"""
    a, b = text_of(a), text_of(b)
    if isinstance(a, SymStr):
        return a._eqz(b)
    if isinstance(b, SymStr):
        return b._eqz(a)
    return a == b


def not_(x):
    return core.sym_not(x)


def and_(a, b):
    return core.sym_and(a, b)


def or_(a, b):
    return core.sym_or(a, b)


def all_(xs):
    r = True
    for x in xs:
        if x is False:
            return False
        if x is True:
            continue
        r = x if r is True else core.sym_and(r, x)
    return r


def isinst(x, cls):
    if is_sym(x):
        from . import inst
        return inst._h_isinstance((x, cls), {})
    return isinstance(x, cls)


def typeof(x):
    if is_sym(x):
        from . import inst
        return inst._h_type((x,), {})
    return type(x)


class Src:
    """file-like stand-in for StringIO: the tokenizer only uses read(1), readline(), name, seek, tell, close"""
    name = '<sym>'

    def __init__(self, chars_):
        self.s = list(chars_)
        self.i = 0

    def read(self, n=1):
        if self.i < len(self.s):
            c = self.s[self.i]
            self.i += 1
            return c
        return ''

    def seek(self, *a):
        pass

    def tell(self):
        return self.i

    def readline(self):
        # io.StringIO.readline: through the next newline (the tokenizer discards the result)
        out = []
        while self.i < len(self.s):
            c = self.s[self.i]
            self.i += 1
            out.append(c)
            if eq(c, '\n'):
                break
        return cat(out)

    def close(self):
        pass
