"""sxv core: a small symbolic executor for real Python code.

Exploration is depth-first by *re-execution*: a harness ``h(e)`` is run over and over; every branch on a
symbolic value asks z3 whether the condition and its negation are feasible under the current path
condition, a decision log (``plan``) is replayed up to the frontier on the next run.  Every path ends in
``e.check(cond)`` obligations which z3 must prove (``path and not cond`` unsat) or refute with a model.

Values:  SymBool / SymInt / SymReal wrap z3 terms;  SymStr is a *concrete-length* sequence whose elements
are concrete characters or z3 integer terms (code points);  SymTok / NumProxy / RealProxy stand for
instances of ``str`` / ``int`` / ``float`` subclasses (plasTeX tokens, ``number``, ``dimen`` ...) whose value
is symbolic while ``__class__`` answers the real class.

The same harness also runs under ``ConcreteEngine`` (plain Python values taken from a z3 model) against the
*uninstrumented* package: that is how counterexamples are replayed and how paths are cross-validated.
"""
import time
import z3

WS_CODES = [9, 10, 11, 12, 13, 28, 29, 30, 31, 32, 0x85, 0xa0, 0x1680] + list(range(0x2000, 0x200b)) + \
           [0x2028, 0x2029, 0x202f, 0x205f, 0x3000]        # str.isspace() / str.strip() set


class Unmodelled(BaseException):
    """A symbolic value reached an operation that has no model (BaseException: plasTeX's
    ``except Exception`` blocks must not swallow it)."""


class PathAbort(BaseException):
    """Infeasible path / failed assumption / path ended by a failed check."""


class BudgetExceeded(BaseException):
    pass


class HarnessError(Exception):
    pass


CUR = None          # engine of the path being executed (symbolic runs)


def _snap(plan):
    """deep copy of a decision log (value lists must not be shared with the live plan)"""
    return [[(list(x) if isinstance(x, list) else x) for x in p] for p in plan]



def cur():
    return CUR


# ----------------------------------------------------------------------------------------------- engine
class Engine:
    symbolic = True

    def __init__(self, max_paths=None, deadline=None, prefix=None, split_depth=None, seed=0,
                 max_failures=8, sample_every=0, fixed=None, chunk=None):
        self.solver = z3.Solver()
        self.solver.set('timeout', 20000)
        self.plan = []          # entries: ['b', taken, both, flipped, nadds] | ['c', i, n, nadds] | ['v', vals, exhausted, nadds]
        self.fixed = 0          # leading plan entries that form a fixed prefix
        if prefix:
            self.plan = _snap(prefix)
            self.fixed = len(self.plan) if fixed is None else fixed
        self.known_sigs = []    # (finding id, compiled regex) of listed known findings
        self.known_hits = {}
        self.chunk = chunk      # explore at most this many paths, then hand the pending alternatives back as continuations
        self.conts = []
        self.split_depth = split_depth
        self.prefixes = []      # collected when split_depth is set
        self.stack = []         # z3 assertions currently pushed on the solver (incremental)
        self.apos = 0
        self.pos = 0
        self.seed = seed
        self.max_paths = max_paths
        self.deadline = deadline
        self.max_failures = max_failures
        self.sample_every = sample_every
        # statistics
        self.paths = self.completed = self.aborted = self.queries = self.checks = self.proved = self.knownobl = 0
        self.nontrivial = 0
        self.solver_s = 0.0
        self.resyncs = 0
        self.maxdepth = 0
        self.failures = []      # dicts
        self.degraded = []      # dicts (unmodelled / escaped exceptions): to be re-run concretely
        self.samples = []       # dicts: inputs + observations of sampled completed paths
        self.cuts = set()
        self.incomplete = None
        self.tags = {}
        self.vac = {}
        # per path
        self.inputs = []        # (name, kind, z3var)
        self.choices = []
        self.obs = []
        self.aborting = None
        self.path_tags = set()
        self.decided = {}

    # ---- solver plumbing
    def _latch(self):
        if self.aborting is not None:
            raise self.aborting

    def _abort(self, exc):
        self.aborting = exc
        raise exc

    def _check(self, *extra):
        t = time.time()
        self.queries += 1
        r = self.solver.check(*extra)
        self.solver_s += time.time() - t
        if r == z3.unknown:
            self._abort(Unmodelled('solver unknown: %s' % self.solver.reason_unknown()))
        return r == z3.sat

    def _add(self, cond):
        if self.apos < len(self.stack):
            if self.stack[self.apos].eq(cond):
                self.apos += 1
                return
            # replay diverged (non-deterministic harness): resynchronise
            self.resyncs += 1
            self._popto(self.apos)
        self.solver.push()
        self.solver.add(cond)
        self.stack.append(cond)
        self.apos += 1

    def _popto(self, n):
        k = len(self.stack) - n
        if k > 0:
            self.solver.pop(k)
            del self.stack[n:]

    def _tick(self):
        if self.deadline is not None and time.time() > self.deadline:
            raise BudgetExceeded('deadline')

    # ---- decisions
    def branch(self, cond):
        """decide a z3 boolean; returns a Python bool"""
        self._latch()
        if z3.is_true(cond):
            return True
        if z3.is_false(cond):
            return False
        cond = z3.simplify(cond)
        if z3.is_true(cond):
            return True
        if z3.is_false(cond):
            return False
        # a condition already decided on this path (or its negation) costs nothing
        k = cond.get_id()
        d = self.decided.get(k)
        if d is not None:
            return d[0]
        if z3.is_not(cond):
            d = self.decided.get(cond.arg(0).get_id())
            if d is not None:
                return not d[0]
        taken = self._branch(cond)
        self.decided[k] = (taken, cond)
        return taken

    def _branch(self, cond):
        if self.pos < len(self.plan):
            ent = self.plan[self.pos]
            if ent[0] != 'b':
                self.resyncs += 1
                del self.plan[self.pos:]
                return self._branch(cond)
            self.pos += 1
            taken = ent[1]
            self._add(cond if taken else z3.Not(cond))
            return taken
        self._popto(self.apos)
        if self.split_depth is not None and len(self.plan) >= self.split_depth:
            self.prefixes.append(_snap(self.plan))
            self._abort(PathAbort('split'))
        self._tick()
        can_t = self._check(cond)
        can_f = self._check(z3.Not(cond)) if can_t else True
        taken = can_t
        self.plan.append(['b', taken, can_t and can_f, False, self.apos])
        self.pos += 1
        self.maxdepth = max(self.maxdepth, len(self.plan))
        self._add(cond if taken else z3.Not(cond))
        return taken

    def choice(self, n, name='choice'):
        """finite choice 0..n-1 (becomes concrete; exhaustively enumerated)"""
        self._latch()
        if n <= 0:
            self._abort(PathAbort('empty choice'))
        if self.pos < len(self.plan):
            ent = self.plan[self.pos]
            if ent[0] != 'c' or ent[2] != n:
                self.resyncs += 1
                del self.plan[self.pos:]
                return self.choice(n, name)
            self.pos += 1
            self.choices.append(ent[1])
            return ent[1]
        if self.split_depth is not None and len(self.plan) >= self.split_depth:
            self.prefixes.append(_snap(self.plan))
            self._abort(PathAbort('split'))
        self.plan.append(['c', 0, n, self.apos])
        self.pos += 1
        self.choices.append(0)
        return 0

    def concretize(self, zexpr, limit=64):
        """fork over the feasible values of an integer term (bounded by `limit`)"""
        self._latch()
        if z3.is_int_value(zexpr):
            return zexpr.as_long()
        s = z3.simplify(zexpr)
        if z3.is_int_value(s):
            return s.as_long()
        if self.pos < len(self.plan):
            ent = self.plan[self.pos]
            if ent[0] != 'v':
                self.resyncs += 1
                del self.plan[self.pos:]
                return self.concretize(zexpr, limit)
            self.pos += 1
            if ent[2] == 'advance':
                self._popto(self.apos)
                excl = z3.And([zexpr != v for v in ent[1]])
                if len(ent[1]) >= limit:
                    self._abort(Unmodelled('concretize: more than %d values' % limit))
                if not self._check(excl):
                    ent[2] = 'exhausted'
                    self._abort(PathAbort('values exhausted'))
                v = self.solver.model().eval(zexpr, model_completion=True).as_long()
                ent[1].append(v)
                ent[2] = 'open'
            v = ent[1][-1]
            self._add(zexpr == v)
            return v
        self._popto(self.apos)
        if self.split_depth is not None and len(self.plan) >= self.split_depth:
            self.prefixes.append(_snap(self.plan))
            self._abort(PathAbort('split'))
        if not self._check():
            self._abort(PathAbort('infeasible'))
        v = self.solver.model().eval(zexpr, model_completion=True).as_long()
        self.plan.append(['v', [v], 'open', self.apos])
        self.pos += 1
        self._add(zexpr == v)
        return v

    def assume(self, cond):
        self._latch()
        if isinstance(cond, SymBool):
            cond = cond.z
        if cond is True:
            return
        if cond is False:
            self._abort(PathAbort('assume False'))
        cond = z3.simplify(cond)
        if z3.is_true(cond):
            return
        fresh = self.apos >= len(self.stack) or not self.stack[self.apos].eq(cond)
        self._add(cond)
        if fresh and not self._check():
            self._abort(PathAbort('assumption infeasible'))

    def cut(self, text):
        self.cuts.add(text)

    def tag(self, t):
        """mark the current path as covering case `t` (vacuity / coverage accounting)"""
        self.path_tags.add(t)

    def nontriv(self):
        self.path_tags.add('__nontrivial__')

    def observe(self, value):
        """record an observable of the real code on this path (cross-validated concretely)"""
        self.obs.append(value)

    # ---- property obligations
    def check(self, cond, what='', sig=None):
        """the property on this path: z3 must prove `cond` under the path condition"""
        self._latch()
        self.checks += 1
        if isinstance(cond, SymBool):
            cond = cond.z
        if cond is True:
            self.proved += 1
            return
        if cond is not False:
            cond = z3.simplify(cond)
            if z3.is_true(cond):
                self.proved += 1
                return
            self._popto(self.apos)
            if not self._check(z3.Not(cond)):
                self.proved += 1
                return
            model = self.solver.model()
        else:
            self._popto(self.apos)
            if not self._check():
                self._abort(PathAbort('infeasible'))
            model = self.solver.model()
        self._fail(what, sig, model)

    def _model_inputs(self, model):
        out = {}
        for name, kind, var in [x[:3] for x in self.inputs]:
            v = model.eval(var, model_completion=True)
            if kind == 'bool':
                out[name] = bool(z3.is_true(v))
            elif kind == 'real':
                out[name] = [v.numerator_as_long(), v.denominator_as_long()]
            else:
                out[name] = v.as_long()
        return out

    def _fail(self, what, sig, model):
        s_ = sig or str(what)
        for kid, rx in self.known_sigs:
            if rx.fullmatch(s_):
                # a listed known finding: remember one witness, keep exploring this path
                if kid not in self.known_hits:
                    self.known_hits[kid] = {'what': str(what), 'sig': s_, 'inputs': self._model_inputs(model), 'choices': list(self.choices)}
                self.proved += 1            # (accounting: not a new failure) ...
                self.knownobl += 1          # ... but counted apart: refuted, by a listed known finding
                return
        self.failures.append({'what': str(what), 'sig': sig or str(what), 'inputs': self._model_inputs(model),
                              'choices': list(self.choices)})
        self._abort(PathAbort('check failed'))

    def fail_exception(self, ex, sig=None):
        """an exception the property forbids escaped the real code on this path"""
        self.check(False, 'raises %s: %s' % (type(ex).__name__, str(ex)[:200]), sig or 'raises:' + type(ex).__name__)

    # ---- inputs
    def _decl(self, name, kind, var, lo=None, hi=None):
        self.inputs.append((name, kind, var, lo, hi))

    def int(self, name, lo=None, hi=None):
        v = z3.Int(name)
        self._decl(name, 'int', v, lo, hi)
        cs = []
        if lo is not None:
            cs.append(v >= lo)
        if hi is not None:
            cs.append(v <= hi)
        if cs:
            self._add(z3.And(cs) if len(cs) > 1 else cs[0])
        return SymInt(self, v)

    def bool(self, name):
        v = z3.Bool(name)
        self._decl(name, 'bool', v)
        return SymBool(self, v)

    def char(self, name, lo=0, hi=0x10FFFF, exclude_surrogates=True):
        v = z3.Int(name)
        self._decl(name, 'char', v, lo, hi)
        c = z3.And(v >= lo, v <= hi)
        if exclude_surrogates and hi >= 0xD800:
            c = z3.And(c, z3.Or(v < 0xD800, v > 0xDFFF))
        self._add(c)
        return SymStr(self, [v])

    def real(self, name):
        v = z3.Real(name)
        self._decl(name, 'real', v)
        return SymReal(self, v)

    # ---- helpers usable in both modes
    def between(self, c, lo, hi):
        z = zint(c)
        return SymBool(self, z3.And(z >= lo, z <= hi))

    def one_of(self, c, chars):
        z = zint(c)
        return SymBool(self, z3.Or([z == (ord(x) if isinstance(x, str) else x) for x in chars]))

    def none_of(self, c, chars):
        z = zint(c)
        return SymBool(self, z3.And([z != (ord(x) if isinstance(x, str) else x) for x in chars]))

    def tok(self, cls, value):
        if isinstance(value, (SymStr, SymTok)):
            return SymTok(cls, as_symstr(value))
        return cls(value)

    def num(self, cls, value):
        if isinstance(value, SymInt):
            return NumProxy(cls, value)
        return cls(value)

    # ---- exploration
    def begin_path(self):
        global CUR
        CUR = self
        self.pos = 0
        self.apos = 0
        self.inputs = []
        self.choices = []
        self.obs = []
        self.aborting = None
        self.path_tags = set()
        self.decided = {}
        self.ndig = 0

    def end_path(self, status):
        self.paths += 1
        if status == 'done':
            self.completed += 1
            for t in self.path_tags:
                self.tags[t] = self.tags.get(t, 0) + 1
            if '__nontrivial__' in self.path_tags:
                self.nontrivial += 1
            if self.sample_every and (self.completed % self.sample_every == 1 or self.sample_every == 1):
                self._sample()
        else:
            self.aborted += 1

    def _sample(self):
        try:
            self._popto(self.apos)
            if self.solver.check() != z3.sat:
                return
            m = self.solver.model()
            obs = [concretize_value(o, m) for o in self.obs]
            self.samples.append({'inputs': self._model_inputs(m), 'choices': list(self.choices), 'obs': obs})
        except (Unmodelled, PathAbort):
            self.aborting = None

    def _degrade(self, reason):
        """path could not be followed symbolically: remember concrete instances of it (a default model plus models with
        the inputs pushed to the upper / lower ends of their ranges - boundary values are where such paths usually differ)"""
        try:
            self.aborting = None
            self._popto(self.apos)
            if self.solver.check() != z3.sat:
                self.degraded.append({'reason': reason[:300], 'inputs': None, 'choices': list(self.choices)})
                return
            models = [self._model_inputs(self.solver.model())]
            for pick in ('hi', 'lo'):
                self.solver.push()
                try:
                    for name, kind, var, lo, hi in self.inputs:
                        bound = hi if pick == 'hi' else lo
                        if kind not in ('int', 'char') or bound is None:
                            continue
                        if self.solver.check(var == bound) == z3.sat:
                            self.solver.add(var == bound)
                    if self.solver.check() == z3.sat:
                        m = self._model_inputs(self.solver.model())
                        if m not in models:
                            models.append(m)
                finally:
                    self.solver.pop()
            for m in models:
                self.degraded.append({'reason': reason[:300], 'inputs': m, 'choices': list(self.choices)})
        except BaseException as ex:      # noqa
            self.degraded.append({'reason': reason[:300] + ' / ' + repr(ex), 'inputs': None, 'choices': list(self.choices)})

    def backtrack(self):
        """advance the plan to the next unexplored alternative; False when exhausted"""
        while len(self.plan) > self.fixed:
            ent = self.plan[-1]
            if ent[0] == 'b':
                if ent[2] and not ent[3]:
                    ent[1] = not ent[1]
                    ent[3] = True
                    self._popto(ent[4])
                    return True
            elif ent[0] == 'c':
                if ent[1] + 1 < ent[2]:
                    ent[1] += 1
                    self._popto(ent[3])
                    return True
            elif ent[0] == 'v':
                if ent[2] == 'open':
                    ent[2] = 'advance'
                    self._popto(ent[3])
                    return True
            self.plan.pop()
        return False

    def pending(self):
        """the unexplored alternatives of the current decision log, each as (plan, fixed) for a continuation job"""
        conts = []
        plan = self.plan
        for i in range(len(plan) - 1, self.fixed - 1, -1):
            ent = plan[i]
            if ent[0] == 'b':
                if ent[2] and not ent[3]:
                    p = _snap(plan[:i + 1])
                    p[i][1] = not p[i][1]
                    p[i][3] = True
                    conts.append((p, i))
            elif ent[0] == 'c':
                if ent[1] + 1 < ent[2]:
                    p = _snap(plan[:i + 1])
                    p[i][1] += 1
                    conts.append((p, i))
            elif ent[0] == 'v':
                if ent[2] == 'open':
                    p = _snap(plan[:i + 1])
                    p[i][2] = 'advance'
                    conts.append((p, i))
        return conts

    def run(self, fn):
        import traceback
        t0 = time.time()
        try:
            while True:
                self.begin_path()
                status = 'done'
                try:
                    fn(self)
                    if self.aborting is not None:      # swallowed by a bare except in the code under test
                        raise self.aborting
                except PathAbort:
                    status = 'abort'
                except Unmodelled as u:
                    status = 'unmodelled'
                    self._degrade('unmodelled: %s' % (u,))
                except BudgetExceeded:
                    raise
                except RecursionError as ex:
                    status = 'exception'
                    self._degrade('RecursionError')
                except Exception as ex:
                    status = 'exception'
                    tb = traceback.extract_tb(ex.__traceback__)
                    loc = '%s:%s' % (tb[-1].filename.split('/')[-1], tb[-1].lineno) if tb else '?'
                    self._degrade('exception %s: %s @%s' % (type(ex).__name__, str(ex)[:160], loc))
                self.end_path(status)
                if self.max_paths and self.paths >= self.max_paths:
                    self.incomplete = 'max_paths=%d reached' % self.max_paths
                    break
                if len(self.failures) >= self.max_failures:
                    self.incomplete = 'stopped after %d failures' % len(self.failures)
                    break
                if len(self.degraded) >= 200:
                    self.incomplete = 'stopped after 200 degraded paths'
                    break
                if self.chunk and self.paths >= self.chunk:
                    self.conts = self.pending()
                    break
                if not self.backtrack():
                    break
        except BudgetExceeded as b:
            self.incomplete = 'budget: %s' % (b,)
        finally:
            global CUR
            CUR = None
        self.wall = time.time() - t0
        return self

    def stats(self):
        return {'paths': self.paths, 'completed': self.completed, 'aborted': self.aborted, 'queries': self.queries,
                'checks': self.checks, 'proved': self.proved, 'knownobl': self.knownobl, 'solver_s': round(self.solver_s, 3),
                'nontrivial': self.nontrivial, 'maxdepth': self.maxdepth, 'resyncs': self.resyncs,
                'tags': dict(self.tags), 'cuts': sorted(self.cuts), 'incomplete': self.incomplete,
                'wall': round(getattr(self, 'wall', 0.0), 3)}


class ConcreteEngine:
    """Runs a harness on plain Python values (inputs of a z3 model) - used for replay against the
    uninstrumented package and for concrete cross-validation."""
    symbolic = False

    def __init__(self, inputs, choices=None):
        self.inputs_given = dict(inputs or {})
        self.choices_given = list(choices or [])
        self.cpos = 0
        self.failed = []
        self.obs = []
        self.cuts = set()
        self.assume_failed = False
        self.known_sigs = []
        self.known_hits = []

    def _get(self, name, default):
        return self.inputs_given.get(name, default)

    def int(self, name, lo=None, hi=None):
        v = self._get(name, lo if lo is not None else 0)
        return int(v)

    def bool(self, name):
        return bool(self._get(name, False))

    def char(self, name, lo=0, hi=0x10FFFF, exclude_surrogates=True):
        return chr(int(self._get(name, max(lo, 97))))

    def real(self, name):
        from fractions import Fraction
        v = self._get(name, [0, 1])
        return float(Fraction(v[0], v[1]))

    def choice(self, n, name='choice'):
        if self.cpos < len(self.choices_given):
            v = self.choices_given[self.cpos]
        else:
            v = 0
        self.cpos += 1
        if v >= n:
            raise PathAbort('choice out of range')
        return v

    def assume(self, cond):
        if not cond:
            self.assume_failed = True
            raise PathAbort('assume failed concretely')

    def check(self, cond, what='', sig=None):
        self.nchecks = getattr(self, 'nchecks', 0) + 1
        if not cond:
            s_ = sig or str(what)
            for kid, rx in getattr(self, 'known_sigs', []):
                if rx.fullmatch(s_):
                    self.known_hits.append(kid)
                    return
            self.failed.append({'what': str(what), 'sig': s_})
            raise PathAbort('check failed')

    def fail_exception(self, ex, sig=None):
        self.check(False, 'raises %s: %s' % (type(ex).__name__, str(ex)[:200]), sig or 'raises:' + type(ex).__name__)

    def cut(self, text):
        self.cuts.add(text)

    def tag(self, t):
        pass

    def nontriv(self):
        pass

    def observe(self, value):
        self.obs.append(plain(value))

    def between(self, c, lo, hi):
        c = ord(c) if isinstance(c, str) else c
        return lo <= c <= hi

    def one_of(self, c, chars):
        c = ord(c) if isinstance(c, str) else c
        return any(c == (ord(x) if isinstance(x, str) else x) for x in chars)

    def none_of(self, c, chars):
        return not self.one_of(c, chars)

    def tok(self, cls, value):
        return cls(value)

    def num(self, cls, value):
        return cls(value)

    def concretize(self, v, limit=64):
        return int(v)

    def run(self, fn):
        """returns 'ok' | 'failed' | 'assume' | ('exception', exc)"""
        try:
            fn(self)
        except PathAbort:
            if self.failed:
                return 'failed'
            return 'assume'
        return 'ok'


# ------------------------------------------------------------------------------------------- conversions
def zint(x):
    if isinstance(x, SymInt):
        return x.z
    if isinstance(x, SymStr):
        if len(x.chars) != 1:
            raise TypeError('expected a character')
        c = x.chars[0]
        return z3.IntVal(ord(c)) if isinstance(c, str) else c
    if isinstance(x, SymTok):
        return zint(x.value)
    if isinstance(x, bool):
        return z3.IntVal(int(x))
    if isinstance(x, int):
        return z3.IntVal(x)
    if isinstance(x, str) and len(x) == 1:
        return z3.IntVal(ord(x))
    if isinstance(x, SymBool):
        return z3.If(x.z, z3.IntVal(1), z3.IntVal(0))
    if z3.is_expr(x):
        return x
    raise Unmodelled('zint %r' % (x,))


def zbool(x):
    if isinstance(x, SymBool):
        return x.z
    if isinstance(x, bool):
        return z3.BoolVal(x)
    if z3.is_expr(x):
        return x
    raise Unmodelled('zbool %r' % (x,))


def is_sym(x):
    return isinstance(x, SYMTYPES)


def plain(v):
    """JSON-able rendering of a concrete observable"""
    if isinstance(v, (list, tuple)):
        return [plain(x) for x in v]
    if isinstance(v, dict):
        return {str(k): plain(x) for k, x in v.items()}
    if isinstance(v, bool) or v is None:
        return v
    if isinstance(v, float):
        return round(float(v), 6)
    if isinstance(v, int):
        return int(v)
    if isinstance(v, str):
        return str.__str__(v) if type(v) is not str else v
    return repr(v)


def concretize_value(v, model):
    """evaluate a (possibly symbolic) observable under a z3 model, to the same rendering as plain()"""
    if isinstance(v, (list, tuple)):
        return [concretize_value(x, model) for x in v]
    if isinstance(v, dict):
        return {str(concretize_value(k, model)): concretize_value(x, model) for k, x in v.items()}
    if isinstance(v, SymBool):
        return bool(z3.is_true(model.eval(v.z, model_completion=True)))
    if isinstance(v, SymInt):
        return model.eval(v.z, model_completion=True).as_long()
    if isinstance(v, SymReal):
        r = model.eval(v.z, model_completion=True)
        return round(r.numerator_as_long() / r.denominator_as_long(), 6)
    if isinstance(v, SymTok):
        v = v.value
    if isinstance(v, SymStr):
        if v._c is None:
            if getattr(v, '_lazyint', None) is not None:
                return str(model.eval(v._lazyint, model_completion=True).as_long())
            return '<lazy>'
        return ''.join(c if isinstance(c, str) else chr(model.eval(c, model_completion=True).as_long()) for c in v.chars)
    return plain(v)


# ----------------------------------------------------------------------------------------------- proxies
class SymBool:
    __slots__ = ('eng', 'z')

    def __init__(self, eng, z):
        self.eng = eng
        self.z = z

    def __bool__(self):
        return self.eng.branch(self.z)

    def __invert__(self):
        return SymBool(self.eng, z3.Not(self.z))

    def __and__(self, o):
        if o is True:
            return self
        if o is False:
            return False
        return SymBool(self.eng, z3.And(self.z, zbool(o)))
    __rand__ = __and__

    def __or__(self, o):
        if o is False:
            return self
        if o is True:
            return True
        return SymBool(self.eng, z3.Or(self.z, zbool(o)))
    __ror__ = __or__

    def __eq__(self, o):
        if isinstance(o, (bool, SymBool)):
            return SymBool(self.eng, self.z == zbool(o))
        if isinstance(o, (int, SymInt)):
            return SymBool(self.eng, zint(self) == zint(o))
        return False

    def __ne__(self, o):
        r = self.__eq__(o)
        return ~r if isinstance(r, SymBool) else (not r)

    def __hash__(self):
        return 1 if bool(self) else 0

    def __int__(self):
        return 1 if bool(self) else 0
    __index__ = __int__

    def __repr__(self):
        return '<SymBool %s>' % self.z


def sym_not(x):
    if isinstance(x, SymBool):
        return ~x
    return not x


def sym_and(a, b):
    if isinstance(a, SymBool):
        return a & b
    if isinstance(b, SymBool):
        return b & a
    return a and b


def sym_or(a, b):
    if isinstance(a, SymBool):
        return a | b
    if isinstance(b, SymBool):
        return b | a
    return a or b


class SymInt:
    def __init__(self, eng, z):
        self.eng = eng
        self.z = z

    def _b(self, z):
        return SymBool(self.eng, z)

    def _i(self, z):
        return SymInt(self.eng, z)

    @staticmethod
    def _ok(o):
        return isinstance(o, (int, SymInt, SymBool)) and not isinstance(o, SymReal)

    def __eq__(self, o):
        if isinstance(o, (SymReal, float)):
            return SymReal(self.eng, z3.ToReal(self.z)).__eq__(o)
        if self._ok(o):
            return self._b(self.z == zint(o))
        return False

    def __ne__(self, o):
        r = self.__eq__(o)
        return ~r if isinstance(r, SymBool) else (not r)

    def _cmp(self, o, op):
        if isinstance(o, (SymReal, float)):
            return op(SymReal(self.eng, z3.ToReal(self.z)), o)
        if not self._ok(o):
            return NotImplemented
        return self._b(op(self.z, zint(o)))

    def __lt__(self, o): return self._cmp(o, lambda a, b: a < b)
    def __le__(self, o): return self._cmp(o, lambda a, b: a <= b)
    def __gt__(self, o): return self._cmp(o, lambda a, b: a > b)
    def __ge__(self, o): return self._cmp(o, lambda a, b: a >= b)

    def _ar(self, o, op, rev=False):
        if isinstance(o, (SymReal, float)):
            a = SymReal(self.eng, z3.ToReal(self.z))
            return op(o, a) if rev else op(a, o)
        if not self._ok(o):
            return NotImplemented
        return self._i(op(zint(o), self.z) if rev else op(self.z, zint(o)))

    def __add__(self, o): return self._ar(o, lambda a, b: a + b)
    def __radd__(self, o): return self._ar(o, lambda a, b: a + b, True)
    def __sub__(self, o): return self._ar(o, lambda a, b: a - b)
    def __rsub__(self, o): return self._ar(o, lambda a, b: a - b, True)
    def __mul__(self, o):
        if isinstance(o, (str, SymStr, list, tuple)):
            return o * self.__index__()
        return self._ar(o, lambda a, b: a * b)
    def __rmul__(self, o):
        if isinstance(o, (str, SymStr, list, tuple)):
            return o * self.__index__()
        return self._ar(o, lambda a, b: a * b, True)

    def __floordiv__(self, o):        # Python floor division == z3 div for positive divisor
        if isinstance(o, int) and not isinstance(o, bool) and o > 0:
            return self._i(self.z / o)
        if isinstance(o, SymInt):
            if o > 0:
                return self._i(self.z / o.z)
            if o < 0:
                return self._floordiv_neg(o)
            raise ZeroDivisionError('integer division or modulo by zero')
        raise Unmodelled('floordiv by %r' % (o,))

    def _floordiv_neg(self, o):
        # floor(a / b) for b < 0  ==  floor((-a) / (-b))
        return self._i((-self.z) / (-o.z))

    def __rfloordiv__(self, o):
        if isinstance(o, int):
            return SymInt(self.eng, z3.IntVal(o)).__floordiv__(self)
        return NotImplemented

    def __mod__(self, o):
        if isinstance(o, int) and not isinstance(o, bool) and o > 0:
            return self._i(self.z % o)
        if isinstance(o, SymInt):
            if o > 0:
                return self._i(self.z % o.z)
        raise Unmodelled('mod by %r' % (o,))

    def __rmod__(self, o):
        if isinstance(o, int):
            return SymInt(self.eng, z3.IntVal(o)).__mod__(self)
        return NotImplemented

    def __divmod__(self, o):
        return (self // o, self % o)

    def __truediv__(self, o):
        return SymReal(self.eng, z3.ToReal(self.z)) / o

    def __rtruediv__(self, o):
        return SymReal(self.eng, SymReal._z(o)) / self

    def __neg__(self): return self._i(-self.z)
    def __pos__(self): return self
    def __abs__(self): return self._i(z3.If(self.z >= 0, self.z, -self.z))

    def __bool__(self): return self.eng.branch(self.z != 0)

    def __hash__(self): return hash(self.__index__())

    def __index__(self):
        return self.eng.concretize(self.z)
    __int__ = __index__

    def __float__(self):
        return float(self.__index__())

    def __repr__(self):
        return '<SymInt %s>' % self.z

    def __str__(self):
        raise Unmodelled('str() of a symbolic integer outside an instrumented call')

    def __format__(self, spec):
        raise Unmodelled('format of symbolic int')


class NumProxy(SymInt):
    """an instance of an int subclass whose value is symbolic"""
    def __init__(self, cls, v):
        SymInt.__init__(self, v.eng, v.z)
        object.__setattr__(self, '_cls', cls)

    @property
    def __class__(self):
        return self._cls

    def __setattr__(self, name, v):
        if name in ('eng', 'z'):
            object.__setattr__(self, name, v)
        else:
            self.__dict__.setdefault('_attrs', {})[name] = v

    def __getattr__(self, name):
        a = self.__dict__.get('_attrs')
        if a is not None and name in a:
            return a[name]
        v = getattr(object.__getattribute__(self, '_cls'), name)
        if isinstance(v, property):
            return v.fget(self)
        if hasattr(v, '__get__') and not isinstance(v, type):
            try:
                return v.__get__(self, self._cls)
            except TypeError:
                raise AttributeError(name)
        return v


class SymReal:
    """floats modelled as z3 reals (stated assumption)"""
    def __init__(self, eng, z):
        self.eng = eng
        self.z = z

    def _w(self, z):
        return SymReal(self.eng, z)

    @staticmethod
    def _z(o):
        if isinstance(o, SymReal):
            return o.z
        if isinstance(o, SymInt):
            return z3.ToReal(o.z)
        if isinstance(o, SymBool):
            return z3.If(o.z, z3.RealVal(1), z3.RealVal(0))
        if isinstance(o, bool):
            return z3.RealVal(int(o))
        if isinstance(o, int):
            return z3.RealVal(o)
        if isinstance(o, float):
            from fractions import Fraction
            fr = Fraction(o)
            return z3.RealVal(fr.numerator) / z3.RealVal(fr.denominator)
        raise Unmodelled('real of %r' % (o,))

    def __mul__(self, o): return self._w(self.z * self._z(o))
    __rmul__ = __mul__
    def __add__(self, o): return self._w(self.z + self._z(o))
    __radd__ = __add__
    def __sub__(self, o): return self._w(self.z - self._z(o))
    def __rsub__(self, o): return self._w(self._z(o) - self.z)
    def __truediv__(self, o):
        d = self._z(o)
        if is_sym(o):
            if SymBool(self.eng, d == 0):
                raise ZeroDivisionError('float division by zero')
        elif o == 0:
            raise ZeroDivisionError('float division by zero')
        return self._w(self.z / d)
    def __rtruediv__(self, o):
        if SymBool(self.eng, self.z == 0):
            raise ZeroDivisionError('float division by zero')
        return self._w(self._z(o) / self.z)
    def __neg__(self): return self._w(-self.z)
    def __pos__(self): return self
    def __abs__(self): return self._w(z3.If(self.z >= 0, self.z, -self.z))
    def __lt__(self, o): return SymBool(self.eng, self.z < self._z(o))
    def __le__(self, o): return SymBool(self.eng, self.z <= self._z(o))
    def __gt__(self, o): return SymBool(self.eng, self.z > self._z(o))
    def __ge__(self, o): return SymBool(self.eng, self.z >= self._z(o))
    def __eq__(self, o):
        if isinstance(o, (int, float, SymInt, SymReal, SymBool)):
            return SymBool(self.eng, self.z == self._z(o))
        return False
    def __ne__(self, o):
        r = self.__eq__(o)
        return ~r if isinstance(r, SymBool) else (not r)
    def __bool__(self): return self.eng.branch(self.z != 0)
    def __hash__(self): raise Unmodelled('hash of symbolic real')
    def __float__(self): raise Unmodelled('float() of symbolic real outside an instrumented call')
    def __int__(self):
        # truncation towards zero
        t = z3.If(self.z >= 0, z3.ToInt(self.z), -z3.ToInt(-self.z))
        return SymInt(self.eng, t)
    def __repr__(self): return '<SymReal %s>' % self.z


class RealProxy(SymReal):
    def __init__(self, cls, v):
        SymReal.__init__(self, v.eng, v.z)
        object.__setattr__(self, '_cls', cls)

    @property
    def __class__(self):
        return self._cls

    def __setattr__(self, name, v):
        if name in ('eng', 'z'):
            object.__setattr__(self, name, v)
        else:
            self.__dict__.setdefault('_attrs', {})[name] = v

    def __getattr__(self, name):
        a = self.__dict__.get('_attrs')
        if a is not None and name in a:
            return a[name]
        v = getattr(object.__getattribute__(self, '_cls'), name)
        if isinstance(v, property):
            return v.fget(self)
        if hasattr(v, '__get__') and not isinstance(v, type):
            try:
                return v.__get__(self, self._cls)
            except TypeError:
                raise AttributeError(name)
        return v


def _cz(c):
    return z3.IntVal(ord(c)) if isinstance(c, str) else c


def mk(eng, chars):
    """string from a list of characters (str of length 1 or z3 int terms); plain str when fully concrete"""
    for c in chars:
        if not isinstance(c, str):
            return SymStr(eng, chars)
    return ''.join(chars)


def as_symstr(x):
    if isinstance(x, SymStr):
        return x
    if isinstance(x, SymTok):
        return x.value
    if isinstance(x, str):
        return SymStr(CUR, list(str.__str__(x)))
    raise Unmodelled('as_symstr %r' % (type(x),))


def chars_of(x):
    if isinstance(x, SymStr):
        return x.chars
    if isinstance(x, SymTok):
        return x.value.chars
    if isinstance(x, str):
        return list(str.__str__(x))
    raise Unmodelled('chars_of %r' % (type(x),))


class SymStr:
    """concrete-length string; elements are 1-char str or z3 Int terms (code points)"""
    __slots__ = ('eng', '_c', '_lazy', '_lazyint')

    def __init__(self, eng, chars):
        self.eng = eng
        self._c = list(chars)

    @classmethod
    def lazy(cls, eng, thunk, lazyint=None):
        """a string whose characters are only computed (possibly forking) if something inspects them"""
        s = cls.__new__(cls)
        s.eng = eng
        s._c = None
        s._lazy = thunk
        s._lazyint = lazyint
        return s

    @property
    def chars(self):
        c = self._c
        if c is None:
            c = self._c = list(self._lazy())
        return c

    @property
    def z(self):
        return zint(self)

    # -- basics
    def __len__(self): return len(self.chars)
    def __bool__(self): return bool(self.chars)

    def __getitem__(self, i):
        if isinstance(i, SymInt):
            n = len(self.chars)
            for j in range(-n, n):
                if i == j:
                    return mk(self.eng, [self.chars[j]])
            raise IndexError('string index out of range')
        if isinstance(i, slice):
            return mk(self.eng, self.chars[i])
        return mk(self.eng, [self.chars[i]])

    def __iter__(self):
        for c in self.chars:
            yield c if isinstance(c, str) else SymStr(self.eng, [c])

    def _eqz(self, o):
        try:
            oc = chars_of(o)
        except Unmodelled:
            return None
        if len(oc) != len(self.chars):
            return False
        cs = []
        for a, b in zip(self.chars, oc):
            if isinstance(a, str) and isinstance(b, str):
                if a != b:
                    return False
                continue
            cs.append(_cz(a) == _cz(b))
        if not cs:
            return True
        return SymBool(self.eng, z3.And(cs) if len(cs) > 1 else cs[0])

    def __eq__(self, o):
        if not isinstance(o, (str, SymStr, SymTok)):
            return False
        if isinstance(o, SymTok):
            return o.__eq__(self)
        return self._eqz(o)

    def __ne__(self, o):
        r = self.__eq__(o)
        return ~r if isinstance(r, SymBool) else (not r)

    def _lex(self, o, strict_less, or_equal):
        a, b = self.chars, chars_of(o)
        # lexicographic a < b  (or <= when or_equal); code point order == str order
        n = min(len(a), len(b))
        expr = z3.BoolVal(len(a) < len(b) or (or_equal and len(a) == len(b)))
        for k in range(n - 1, -1, -1):
            x, y = _cz(a[k]), _cz(b[k])
            expr = z3.If(x == y, expr, x < y)
        return SymBool(self.eng, expr)

    def __lt__(self, o):
        if not isinstance(o, (str, SymStr, SymTok)): return NotImplemented
        return self._lex(o, True, False)
    def __le__(self, o):
        if not isinstance(o, (str, SymStr, SymTok)): return NotImplemented
        return self._lex(o, True, True)
    def __gt__(self, o):
        if not isinstance(o, (str, SymStr, SymTok)): return NotImplemented
        return ~self._lex(o, True, True)
    def __ge__(self, o):
        if not isinstance(o, (str, SymStr, SymTok)): return NotImplemented
        return ~self._lex(o, True, False)

    def __hash__(self):
        # identity hash: symbolic keys are found by the linear symbolic search of the instrumented
        # dict operations, never by hash equality.
        return id(self) >> 4

    def __add__(self, o):
        if not isinstance(o, (str, SymStr, SymTok)): return NotImplemented
        if self._c is None or (isinstance(o, SymStr) and o._c is None):
            return SymStr.lazy(self.eng, lambda: chars_of(self) + chars_of(o))
        return mk(self.eng, self.chars + chars_of(o))

    def __radd__(self, o):
        if not isinstance(o, (str, SymStr, SymTok)): return NotImplemented
        if self._c is None or (isinstance(o, SymStr) and o._c is None):
            return SymStr.lazy(self.eng, lambda: chars_of(o) + chars_of(self))
        return mk(self.eng, chars_of(o) + self.chars)

    def __mul__(self, n):
        if isinstance(n, SymInt): n = n.__index__()
        return mk(self.eng, self.chars * n)
    __rmul__ = __mul__

    def __contains__(self, sub):
        return bool(sym_contains(self, sub))

    def __str__(self):
        raise Unmodelled('str() of a symbolic string reached C code')

    def __repr__(self):
        if self._c is None:
            return 'SymStr(<lazy>)'
        return 'SymStr(%s)' % ','.join(repr(c) if isinstance(c, str) else str(c) for c in self.chars)

    def __format__(self, spec):
        raise Unmodelled('format of symbolic string')

    def __mod__(self, o):
        raise Unmodelled('symbolic format string')

    # -- classification of single characters
    def _each(self, pred):
        """all(pred(c)) for c in chars as SymBool/bool; False for the empty string"""
        if not self.chars:
            return False
        cs = []
        for c in self.chars:
            r = pred(c)
            if r is False:
                return False
            if r is True:
                continue
            cs.append(r)
        if not cs:
            return True
        return SymBool(self.eng, z3.And(cs) if len(cs) > 1 else cs[0])

    def _ascii_or_unmodelled(self, what):
        for c in self.chars:
            if not isinstance(c, str):
                if not SymBool(self.eng, c < 128):
                    raise Unmodelled('%s of a symbolic non-ASCII character' % what)

    def isspace(self):
        return self._each(lambda c: c.isspace() if isinstance(c, str) else z3.Or([c == w for w in WS_CODES]))

    def isdigit(self):
        self._ascii_or_unmodelled('isdigit')
        return self._each(lambda c: c.isdigit() if isinstance(c, str) else z3.And(c >= 48, c <= 57))
    isdecimal = isnumeric = isdigit

    def isalpha(self):
        self._ascii_or_unmodelled('isalpha')
        return self._each(lambda c: c.isalpha() if isinstance(c, str) else
                          z3.Or(z3.And(c >= 65, c <= 90), z3.And(c >= 97, c <= 122)))

    def isalnum(self):
        self._ascii_or_unmodelled('isalnum')
        return self._each(lambda c: c.isalnum() if isinstance(c, str) else
                          z3.Or(z3.And(c >= 65, c <= 90), z3.And(c >= 97, c <= 122), z3.And(c >= 48, c <= 57)))

    def isupper(self):
        self._ascii_or_unmodelled('isupper')
        if len(self.chars) != 1: raise Unmodelled('isupper on multi-char symbolic string')
        return self._each(lambda c: c.isupper() if isinstance(c, str) else z3.And(c >= 65, c <= 90))

    def islower(self):
        self._ascii_or_unmodelled('islower')
        if len(self.chars) != 1: raise Unmodelled('islower on multi-char symbolic string')
        return self._each(lambda c: c.islower() if isinstance(c, str) else z3.And(c >= 97, c <= 122))

    def upper(self):
        self._ascii_or_unmodelled('upper')
        return mk(self.eng, [c.upper() if isinstance(c, str) else z3.If(z3.And(c >= 97, c <= 122), c - 32, c)
                             for c in self.chars])

    def lower(self):
        self._ascii_or_unmodelled('lower')
        return mk(self.eng, [c.lower() if isinstance(c, str) else z3.If(z3.And(c >= 65, c <= 90), c + 32, c)
                             for c in self.chars])

    # -- searching / editing (all fork on symbolic comparisons)
    def _isws(self, c, chars):
        if chars is None:
            if isinstance(c, str):
                return c.isspace()
            return bool(SymBool(self.eng, z3.Or([c == w for w in WS_CODES])))
        return bool(sym_contains(chars, mk(self.eng, [c])))

    def strip(self, chars=None):
        r = self.lstrip(chars)
        return r.rstrip(chars)

    def lstrip(self, chars=None):
        cs = list(self.chars)
        while cs and self._isws(cs[0], chars):
            cs.pop(0)
        return mk(self.eng, cs)

    def rstrip(self, chars=None):
        cs = list(self.chars)
        while cs and self._isws(cs[-1], chars):
            cs.pop()
        return mk(self.eng, cs)

    def startswith(self, prefix, start=0):
        if isinstance(prefix, tuple):
            for p in prefix:
                if self.startswith(p, start):
                    return True
            return False
        pc = chars_of(prefix)
        w = self.chars[start:start + len(pc)]
        if len(w) != len(pc):
            return False
        return SymStr(self.eng, w)._eqz(mk(self.eng, pc)) if w else True

    def endswith(self, suffix):
        if isinstance(suffix, tuple):
            for p in suffix:
                if self.endswith(p):
                    return True
            return False
        pc = chars_of(suffix)
        if len(pc) > len(self.chars):
            return False
        if not pc:
            return True
        return SymStr(self.eng, self.chars[len(self.chars) - len(pc):])._eqz(mk(self.eng, pc))

    def find(self, sub, start=0, end=None):
        sc = chars_of(sub)
        cs = self.chars if end is None else self.chars[:end]
        n = len(sc)
        if isinstance(start, SymInt): start = start.__index__()
        if start < 0: start = max(0, len(cs) + start)
        for i in range(start, len(cs) - n + 1):
            m = SymStr(self.eng, cs[i:i + n])._eqz(mk(self.eng, sc)) if n else True
            if m is True or (m is not False and bool(m)):
                return i
        return -1

    def rfind(self, sub, start=0, end=None):
        sc = chars_of(sub)
        cs = self.chars if end is None else self.chars[:end]
        n = len(sc)
        for i in range(len(cs) - n, start - 1, -1):
            m = SymStr(self.eng, cs[i:i + n])._eqz(mk(self.eng, sc)) if n else True
            if m is True or (m is not False and bool(m)):
                return i
        return -1

    def index(self, sub, *a):
        r = self.find(sub, *a)
        if r < 0:
            raise ValueError('substring not found')
        return r

    def rindex(self, sub, *a):
        r = self.rfind(sub, *a)
        if r < 0:
            raise ValueError('substring not found')
        return r

    def count(self, sub):
        sc = chars_of(sub)
        n = len(sc)
        if n == 0:
            return len(self.chars) + 1
        i = k = 0
        while i <= len(self.chars) - n:
            m = SymStr(self.eng, self.chars[i:i + n])._eqz(mk(self.eng, sc))
            if m is True or (m is not False and bool(m)):
                k += 1
                i += n
            else:
                i += 1
        return k

    def replace(self, old, new, count=-1):
        oc, nc = chars_of(old), chars_of(new)
        n = len(oc)
        if n == 0:
            raise Unmodelled('replace of empty pattern on symbolic string')
        out = []
        i = 0
        while i < len(self.chars):
            if count != 0 and i + n <= len(self.chars):
                m = SymStr(self.eng, self.chars[i:i + n])._eqz(mk(self.eng, oc))
                if m is True or (m is not False and bool(m)):
                    out.extend(nc)
                    i += n
                    if count > 0: count -= 1
                    continue
            out.append(self.chars[i])
            i += 1
        return mk(self.eng, out)

    def split(self, sep=None, maxsplit=-1):
        out = []
        cur_ = []
        cs = self.chars
        if sep is None:
            i = 0
            started = False
            while i < len(cs):
                if self._isws(cs[i], None):
                    if started:
                        out.append(mk(self.eng, cur_)); cur_ = []; started = False
                        if maxsplit >= 0 and len(out) >= maxsplit:
                            rest = list(cs[i + 1:])
                            while rest and self._isws(rest[0], None):
                                rest.pop(0)
                            if rest:
                                out.append(mk(self.eng, rest))
                            return out
                else:
                    started = True
                    cur_.append(cs[i])
                i += 1
            if started:
                out.append(mk(self.eng, cur_))
            return out
        sc = chars_of(sep)
        n = len(sc)
        if n == 0:
            raise ValueError('empty separator')
        i = 0
        while i < len(cs):
            if (maxsplit < 0 or len(out) < maxsplit) and i + n <= len(cs):
                m = SymStr(self.eng, cs[i:i + n])._eqz(mk(self.eng, sc))
                if m is True or (m is not False and bool(m)):
                    out.append(mk(self.eng, cur_)); cur_ = []
                    i += n
                    continue
            cur_.append(cs[i])
            i += 1
        out.append(mk(self.eng, cur_))
        return out

    def rsplit(self, sep=None, maxsplit=-1):
        if maxsplit < 0:
            return self.split(sep)
        raise Unmodelled('rsplit with maxsplit on symbolic string')

    def splitlines(self, keepends=False):
        raise Unmodelled('splitlines on symbolic string')

    def partition(self, sep):
        i = self.find(sep)
        if i < 0:
            return (self, '', '')
        n = len(chars_of(sep))
        return (mk(self.eng, self.chars[:i]), sep, mk(self.eng, self.chars[i + n:]))

    def join(self, items):
        items = list(items)
        for it in items:
            if isinstance(it, SymStr) and it._c is None:
                # joining text that has not been rendered yet stays lazy
                return SymStr.lazy(self.eng, lambda: chars_of(SymStr(self.eng, self.chars)._join_now(items)))
        return self._join_now(items)

    def _join_now(self, items):
        out = []
        for k, it in enumerate(items):
            if k:
                out.extend(self.chars)
            out.extend(chars_of(it))
        return mk(self.eng, out)

    def encode(self, *a, **k):
        raise Unmodelled('encode of symbolic string')

    def translate(self, table):
        """str.translate with a mapping {code point: replacement str | code point | None}"""
        if not isinstance(table, dict):
            raise Unmodelled('translate with a non-dict table on a symbolic string')
        out = []
        for c in self.chars:
            if isinstance(c, str):
                out.extend(c.translate(table))
                continue
            for k, v in table.items():
                if SymBool(self.eng, c == k):
                    if v is None:
                        pass
                    elif isinstance(v, int):
                        out.append(chr(v))
                    else:
                        out.extend(v)
                    break
            else:
                out.append(c)
        return mk(self.eng, out)

    def format(self, *a, **k):
        raise Unmodelled('format on symbolic string')

    def title(self):
        raise Unmodelled('title of symbolic string')

    def capitalize(self):
        raise Unmodelled('capitalize of symbolic string')


def sym_contains(container, sub):
    """`sub in container` for strings, at least one of them symbolic"""
    if isinstance(sub, SymTok):
        sub = sub.value
    if isinstance(container, SymTok):
        container = container.value
    cc, sc = chars_of(container), chars_of(sub)
    eng = container.eng if isinstance(container, SymStr) else sub.eng
    n = len(sc)
    if n == 0:
        return True
    if n > len(cc):
        return False
    alts = []
    for i in range(len(cc) - n + 1):
        conj = []
        ok = True
        for a, b in zip(cc[i:i + n], sc):
            if isinstance(a, str) and isinstance(b, str):
                if a != b:
                    ok = False
                    break
                continue
            conj.append(_cz(a) == _cz(b))
        if not ok:
            continue
        if not conj:
            return True
        alts.append(z3.And(conj) if len(conj) > 1 else conj[0])
    if not alts:
        return False
    return SymBool(eng, z3.Or(alts) if len(alts) > 1 else alts[0])


_SLOT_TYPE = type(SymBool.__dict__['z'])


class SymTok:
    """stands for an instance of a ``str`` subclass (plasTeX Token / Text) whose text is symbolic"""

    def __init__(self, cls, value):
        object.__setattr__(self, '_cls', cls)
        object.__setattr__(self, 'value', value if isinstance(value, SymStr) else as_symstr(value))
        object.__setattr__(self, '_attrs', {})

    @property
    def __class__(self):
        return object.__getattribute__(self, '_cls')

    def __getattr__(self, name):
        a = object.__getattribute__(self, '_attrs')
        if name in a:
            return a[name]
        cls = object.__getattribute__(self, '_cls')
        for k in cls.__mro__:
            if name in k.__dict__:
                v = k.__dict__[name]
                break
        else:
            v = getattr(object.__getattribute__(self, 'value'), name)     # str methods -> SymStr model
            return v
        if isinstance(v, _SLOT_TYPE):
            raise AttributeError(name)
        if isinstance(v, property):
            return v.fget(self)
        if isinstance(v, (staticmethod,)):
            return v.__func__
        if isinstance(v, classmethod):
            return v.__get__(None, cls)
        if hasattr(v, '__get__') and not isinstance(v, type):
            try:
                return v.__get__(self, cls)
            except TypeError:
                if k is str:
                    return getattr(object.__getattribute__(self, 'value'), name)
                raise AttributeError(name)
        return v

    def __setattr__(self, name, v):
        object.__getattribute__(self, '_attrs')[name] = v

    def __delattr__(self, name):
        try:
            del object.__getattribute__(self, '_attrs')[name]
        except KeyError:
            raise AttributeError(name)

    @property
    def eng(self):
        return self.value.eng

    def __len__(self): return len(self.value)
    def __bool__(self): return bool(self.value.chars)
    def __getitem__(self, i): return self.value[i]
    def __iter__(self): return iter(self.value)
    def __contains__(self, sub): return bool(sym_contains(self.value, sub))

    # models of Token.__eq__/__ne__/__lt__/__str__/__hash__ (validated against the real class each run)
    def __eq__(self, other):
        cls = self._cls
        from plasTeX.Tokenizer import Token
        if issubclass(cls, Token):
            if isinstance(other, Token):
                if self is other:
                    return True
                if self.catcode != other.catcode:
                    return False
                return self.value._eqz(other.value if isinstance(other, SymTok) else str.__str__(other))
            if isinstance(other, (str, SymStr, SymTok)):
                return self.value._eqz(other)
            return False         # real code: str.__eq__(self, str(other)) for non-strings
        if isinstance(other, (str, SymStr, SymTok)):
            return self.value._eqz(other)
        return False

    def __ne__(self, other):
        r = self.__eq__(other)
        return ~r if isinstance(r, SymBool) else (not r)

    def __lt__(self, other):
        from plasTeX.Tokenizer import Token
        if issubclass(self._cls, Token) and isinstance(other, Token):
            if self.catcode == other.catcode:
                return self.value < (other.value if isinstance(other, SymTok) else str.__str__(other))
            return self.catcode < other.catcode
        return self.value < other

    def __gt__(self, other):
        return self.value > (other.value if isinstance(other, SymTok) else other)

    def __le__(self, other):
        return self.value <= (other.value if isinstance(other, SymTok) else other)

    def __ge__(self, other):
        return self.value >= (other.value if isinstance(other, SymTok) else other)

    def __hash__(self):
        return id(self) >> 4

    def __add__(self, o):
        if not isinstance(o, (str, SymStr, SymTok)): return NotImplemented
        return self.value + o

    def __radd__(self, o):
        if not isinstance(o, (str, SymStr, SymTok)): return NotImplemented
        return mk(self.eng, chars_of(o) + self.value.chars)

    def __mul__(self, n):
        return self.value * n

    def __str__(self):
        raise Unmodelled('str() of a symbolic token reached C code')

    def __repr__(self):
        return '<%s %r>' % (object.__getattribute__(self, '_cls').__name__, object.__getattribute__(self, 'value'))

    def __format__(self, spec):
        raise Unmodelled('format of symbolic token')

    def __reduce__(self):
        raise Unmodelled('pickle of symbolic token')


SYMTYPES = (SymBool, SymInt, SymReal, SymStr, SymTok)


def int_to_str(v):
    """str(int) for a symbolic integer; lazy: forks on sign and digit count only if the text is inspected"""
    return SymStr.lazy(v.eng, lambda: chars_of(_int_to_str(v)), lazyint=v.z)


def _int_to_str(v):
    eng = v.eng
    neg = bool(v < 0)
    a = -v if neg else v
    n = 1
    while not bool(a < 10 ** n):
        n += 1
        if n > 18:
            raise Unmodelled('str(int) with more than 18 digits')
    az = z3.simplify(a.z)
    if z3.is_int_value(az):
        return mk(eng, (['-'] if neg else []) + list(str(az.as_long())))
    # digits as fresh variables tied to the value by a linear definition (much easier for the solver than div/mod terms)
    eng.ndig = getattr(eng, 'ndig', 0) + 1
    ds = [z3.Int('_dg%d_%d' % (eng.ndig, k)) for k in range(n)]
    total = ds[0]
    for d in ds[1:]:
        total = total * 10 + d
    cs = [z3.And(d >= 0, d <= 9) for d in ds] + [az == total]
    if n > 1:
        cs.append(ds[0] >= 1)
    eng._add(z3.And(cs))
    return mk(eng, (['-'] if neg else []) + [d + 48 for d in ds])


def str_to_int(s, base=10):
    """int(str) on a symbolic string; forks on validity exactly like the builtin raises ValueError"""
    chars = list(chars_of(s))
    eng = s.eng if isinstance(s, (SymStr, SymTok)) else CUR
    S = as_symstr(s).strip()
    chars = list(chars_of(S))
    sign = 1
    if chars and isinstance(chars[0], str) and chars[0] in '+-':
        if chars[0] == '-': sign = -1
        chars = chars[1:]
    elif chars and not isinstance(chars[0], str):
        c = chars[0]
        if SymBool(eng, c == 45):
            sign = -1; chars = chars[1:]
        elif SymBool(eng, c == 43):
            chars = chars[1:]
    if base in (16, 8, 2) and len(chars) >= 2 and isinstance(chars[0], str) and chars[0] == '0':
        marks = {16: 'xX', 8: 'oO', 2: 'bB'}[base]
        c1 = chars[1]
        if isinstance(c1, str):
            if c1 in marks:
                chars = chars[2:]
        elif SymBool(eng, z3.Or([c1 == ord(m) for m in marks])):
            chars = chars[2:]
    if not chars:
        raise ValueError("invalid literal for int() with base %d" % base)
    total = None
    for c in chars:
        if isinstance(c, str):
            if c == '_':
                raise Unmodelled('underscore in int literal')
            d = z3.IntVal(int(c, base))
        else:
            if SymBool(eng, c >= 128):
                raise Unmodelled('int() of a symbolic non-ASCII character')
            if base <= 10:
                if not SymBool(eng, z3.And(c >= 48, c < 48 + base)):
                    raise ValueError("invalid literal for int() with base %d" % base)
                d = c - 48
            else:
                if SymBool(eng, z3.And(c >= 48, c <= 57)):
                    d = c - 48
                elif SymBool(eng, z3.And(c >= 97, c < 97 + base - 10)):
                    d = c - 87
                elif SymBool(eng, z3.And(c >= 65, c < 65 + base - 10)):
                    d = c - 55
                else:
                    raise ValueError("invalid literal for int() with base %d" % base)
        total = d if total is None else total * base + d
    return SymInt(eng, z3.simplify(total * sign if sign < 0 else total))


def str_to_float(s):
    eng = s.eng
    S = as_symstr(s).strip()
    chars = list(chars_of(S))
    sign = 1
    if chars and isinstance(chars[0], str) and chars[0] in '+-':
        if chars[0] == '-': sign = -1
        chars = chars[1:]
    elif chars and not isinstance(chars[0], str):
        c = chars[0]
        if SymBool(eng, c == 45):
            sign = -1; chars = chars[1:]
        elif SymBool(eng, c == 43):
            chars = chars[1:]
    # locate the decimal point (forks if symbolic)
    ip, fp, seen = [], [], False
    for c in chars:
        isdot = (c == '.') if isinstance(c, str) else bool(SymBool(eng, c == 46))
        if isdot:
            if seen:
                raise ValueError('could not convert string to float')
            seen = True
            continue
        (fp if seen else ip).append(c)
    if not ip and not fp:
        raise ValueError('could not convert string to float')

    def dig(c):
        if isinstance(c, str):
            if c not in '0123456789':
                raise Unmodelled('float() literal with %r' % c)
            return z3.RealVal(int(c))
        if not SymBool(eng, z3.And(c >= 48, c <= 57)):
            if SymBool(eng, z3.Or(c == 101, c == 69, c == 95, c >= 128, c == 105, c == 110, c == 73, c == 78)):
                raise Unmodelled('float() literal with exponent/inf/nan/underscore/non-ASCII')
            raise ValueError('could not convert string to float')
        return z3.ToReal(c - 48)
    total = z3.RealVal(0)
    for c in ip:
        total = total * 10 + dig(c)
    scale = z3.RealVal(1)
    for c in fp:
        scale = scale / 10
        total = total + dig(c) * scale
    return SymReal(eng, z3.simplify(-total if sign < 0 else total))
