#!/bin/sh
# Offline bootstrap: overlay venv on /venv (the repository's interpreter) + z3-solver from the wheelhouse.
# Idempotent; every check calls it first because only committed files are guaranteed to exist.
set -e
cd "$(dirname "$0")"
V=.venv
if [ ! -x $V/bin/python ] || ! $V/bin/python -c "import z3" 2>/dev/null; then
  rm -rf $V
  /venv/bin/python -m venv $V
  SP=$($V/bin/python -c "import sysconfig;print(sysconfig.get_paths()['purelib'])")
  printf "import site; site.addsitedir('/venv/lib/python3.12/site-packages')\n/repo\n" > "$SP/_overlay.pth"
  PIP_NO_INDEX=1 $V/bin/python -m pip install -q --no-index --find-links /opt/veriftools/wheels z3-solver >/dev/null
fi
$V/bin/python -c "import z3, plasTeX"
