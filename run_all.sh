#!/bin/sh
# runs every claimed check at the given tier (default quick); prints one line per check
TIER=${1:-quick}
cd "$(dirname "$0")"
for id in $(python3 -c "import json;print(' '.join(c['property_id'] for c in json.load(open('MANIFEST.json'))['checks']))"); do
  s=$(date +%s)
  out=$(./check $id --tier $TIER 2>&1); rc=$?
  echo "$id rc=$rc $(( $(date +%s) - s ))s $(echo "$out" | grep -E "^$id|VIOLATION|INCONCLUSIVE|KNOWN-FINDING" | head -3 | tr '\n' ' ' | cut -c1-260)"
done
