#!/bin/sh
# Runs the repository's pinned suite (guard off) and compares the passing set with BASELINE.json's stable_pass.
X=/var/tmp/plastex-baseline-$$.xml
cd /repo && /venv/bin/python -m pytest -ra -q -p no:cacheprovider --timeout=900 --continue-on-collection-errors --junitxml=$X >/dev/null 2>&1
/venv/bin/python - "$X" <<'PY'
import sys, json, xml.etree.ElementTree as ET
passed=set()
for tc in ET.parse(sys.argv[1]).getroot().iter('testcase'):
    if not any(ch.tag in ('failure','error','skipped') for ch in tc):
        passed.add('%s::%s' % (tc.get('classname'), tc.get('name')))
base=set(json.load(open('/root/.vp/BASELINE.json'))['stable_pass'])
print('passed', len(passed), 'missing', sorted(base-passed), 'extra', sorted(passed-base))
sys.exit(0 if base <= passed else 1)
PY
rc=$?
rm -f $X
exit $rc
